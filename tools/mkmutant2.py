#!/usr/bin/env python3
"""mkmutant2.py <name> <file-relative-to-/repo> <old> <new> [...] : like mkmutant.py but never touches /repo (the patch
is computed with difflib from an in-memory copy), so it is safe while a background run rebuilds from /repo."""
import difflib, os, sys
name, trip = sys.argv[1], sys.argv[2:]
assert len(trip) % 3 == 0
files = {}
for i in range(0, len(trip), 3):
    rel, old, new = trip[i:i + 3]
    s = files.get(rel) or open(os.path.join("/repo", rel)).read()
    assert s.count(old) == 1, f"{rel}: pattern occurs {s.count(old)} times: {old!r}"
    files[rel] = s.replace(old, new)
out = ""
for rel, new in files.items():
    a = open(os.path.join("/repo", rel)).read().splitlines(keepends=True)
    out += "".join(difflib.unified_diff(a, new.splitlines(keepends=True), f"a/{rel}", f"b/{rel}"))
open(f"/verif/mutants/{name}.patch", "w").write(out)
print("wrote", name)
