#!/usr/bin/env python3
"""sweep.py --root DIR --shard i/n [--threads k] [--limit m] : systematic mutation sweep.

Every comparison operator in the decoder / encoder / entropy / I/O sources of /repo (outside tests, debug
assertions, trace output and verification hooks) is replaced by its neighbours (< <-> <=, > <-> >=, == <-> !=),
one mutant at a time, in a scratch copy of /repo and /verif under DIR (never in /repo). For each mutant the quick
checks that own the file are run until one reports a violation. A mutant no check catches is then run against the
repository's own test suite: 'suite red' mutants are not the kind of change the properties are about; 'suite
green' survivors are listed for inspection (equivalent mutant, or a gap in the explored space).
Results: /verif/mutants/sweep/<shard>.jsonl (one line per mutant) - summarise with --summary."""
import glob, json, os, re, subprocess, sys, time
VERIF = os.path.dirname(os.path.dirname(os.path.abspath(__file__)))
sys.path.insert(0, os.path.join(VERIF, "tools"))

FILES = [
    ("ruzstd/src/decoding/ringbuffer.rs", ["C04", "C01"]),
    ("ruzstd/src/decoding/decode_buffer.rs", ["C04", "C06", "C09", "C01", "C08"]),
    ("ruzstd/src/decoding/frame_decoder.rs", ["C06", "C10", "C11", "C07", "C05", "C09"]),
    ("ruzstd/src/decoding/block_decoder.rs", ["C14", "C01", "C05", "C03"]),
    ("ruzstd/src/decoding/sequence_execution.rs", ["C01", "C14", "C05", "C03"]),
    ("ruzstd/src/decoding/sequence_section_decoder.rs", ["C01", "C07", "C03"]),
    ("ruzstd/src/decoding/literals_section_decoder.rs", ["C01", "C13", "C03"]),
    ("ruzstd/src/decoding/frame.rs", ["C14", "C11", "C10"]),
    ("ruzstd/src/decoding/streaming_decoder.rs", ["C06", "C10"]),
    ("ruzstd/src/decoding/dictionary.rs", ["C09", "C03"]),
    ("ruzstd/src/decoding/scratch.rs", ["C07", "C09", "C01"]),
    ("ruzstd/src/blocks/literals_section.rs", ["C14", "C01", "C03"]),
    ("ruzstd/src/blocks/sequence_section.rs", ["C14", "C01", "C03"]),
    ("ruzstd/src/blocks/block.rs", ["C14", "C01"]),
    ("ruzstd/src/fse/fse_decoder.rs", ["C12", "C01", "C03"]),
    ("ruzstd/src/fse/fse_encoder.rs", ["C12", "C02", "C16"]),
    ("ruzstd/src/huff0/huff0_decoder.rs", ["C13", "C01", "C03"]),
    ("ruzstd/src/huff0/huff0_encoder.rs", ["C13", "C02", "C16"]),
    ("ruzstd/src/bit_io/bit_reader.rs", ["C12", "C01"]),
    ("ruzstd/src/bit_io/bit_reader_reverse.rs", ["C12", "C13", "C01"]),
    ("ruzstd/src/bit_io/bit_writer.rs", ["C12", "C13", "C02"]),
    ("ruzstd/src/encoding/blocks/compressed.rs", ["C14", "C02", "C16", "C13", "C12"]),
    ("ruzstd/src/encoding/frame_compressor.rs", ["C08", "C02"]),
    ("ruzstd/src/encoding/match_generator.rs", ["C17", "C02"]),
    ("ruzstd/src/encoding/frame_header.rs", ["C14", "C16"]),
    ("ruzstd/src/encoding/levels/fastest.rs", ["C02", "C16"]),
    ("ruzstd/src/encoding/block_header.rs", ["C14", "C02"]),
    ("ruzstd/src/io_nostd.rs", ["C18"]),
    ("ruzstd/src/dictionary/mod.rs", ["C20"]),
    ("ruzstd/src/dictionary/reservoir.rs", ["C20"]),
    ("ruzstd/src/dictionary/cover.rs", ["C20"]),
    ("cli/src/main.rs", ["C19"]),
]
SWAPS = {" < ": [" <= "], " <= ": [" < "], " > ": [" >= "], " >= ": [" > "], " == ": [" != "], " != ": [" == "]}

def sh(cmd, cwd=None, env=None, timeout=3600):
    """run in its own process group; on timeout the whole group is killed (an engine that loops for ever under a
    mutant must not keep running after the wrapper gave up)"""
    import signal
    p = subprocess.Popen(cmd, cwd=cwd, shell=isinstance(cmd, str), stdout=subprocess.PIPE, stderr=subprocess.STDOUT, text=True, env=env, start_new_session=True)
    try:
        out, _ = p.communicate(timeout=timeout)
        return p.returncode, out
    except subprocess.TimeoutExpired:
        try:
            os.killpg(p.pid, signal.SIGKILL)
        except ProcessLookupError:
            pass
        out, _ = p.communicate()
        return 124, out or ""

def sites():
    out = []
    for rel, checks in FILES:
        p = os.path.join("/repo", rel)
        if not os.path.exists(p):
            continue
        lines = open(p).read().split("\n")
        skip_depth = None
        for i, line in enumerate(lines):
            st = line.strip()
            if st.startswith("#[cfg(test)]") or st.startswith("#[cfg(zstd_rs_verif)]"):
                # skip the rest of the file for test modules / hook items (hooks and tests sit at the end of an item list)
                if st.startswith("#[cfg(test)]"):
                    break
                skip_depth = 0
            if skip_depth is not None:
                skip_depth += line.count("{") - line.count("}")
                if skip_depth <= 0 and ("}" in line or ";" in line) and i > 0 and not st.startswith("#["):
                    skip_depth = None
                continue
            if st.startswith("//") or "assert" in st or "vprintln" in st or "unreachable" in st or st.startswith("#["):
                continue
            code = line.split("//")[0]
            for op, repls in SWAPS.items():
                start = 0
                while True:
                    k = code.find(op, start)
                    if k < 0:
                        break
                    start = k + len(op)
                    # generics / closures / arrows / shifts are not comparisons
                    ctx = code[max(0, k - 1):k + len(op) + 1]
                    if "->" in ctx or "=>" in ctx or "<<" in ctx or ">>" in ctx:
                        continue
                    for r in repls:
                        out.append({"file": rel, "line": i + 1, "col": k, "op": op.strip(), "new": r.strip(), "checks": checks, "text": st[:140]})
    return out

DELETE = re.compile(r'^\s*(self|state|scratch|workspace)\.[A-Za-z_\.\[\]0-9]+(\s*[-+*|&]?=[^=]|\.(clear|reset|push|extend|truncate|resize|insert|remove|drain|take|replace|reserve|write|advance|drop_first_n)\().*;\s*$')

def sites_delete():
    """single-line statements that update or reset state: each one deleted in turn (the 'forgotten reset' class)"""
    out = []
    for rel, checks in FILES:
        p = os.path.join("/repo", rel)
        if not os.path.exists(p):
            continue
        lines = open(p).read().split("\n")
        in_hook = 0
        for i, line in enumerate(lines):
            st = line.strip()
            if st.startswith("#[cfg(test)]"):
                break
            if st.startswith("#[cfg(zstd_rs_verif)]"):
                in_hook = 1
                continue
            if in_hook:
                in_hook += line.count("{") - line.count("}")
                if in_hook <= 1 and "}" in line:
                    in_hook = 0
                continue
            if DELETE.match(line) and "assert" not in line and "vprintln" not in line:
                out.append({"file": rel, "line": i + 1, "col": 0, "op": "delete", "new": "", "checks": checks, "text": st[:140]})
    return out

OFFBY = re.compile(r'( [+-] 1)(?![0-9_])')

def sites_offbyone():
    """every `+ 1` / `- 1` dropped (`+ 0` / `- 0`): the classic off-by-one"""
    out = []
    for rel, checks in FILES:
        p = os.path.join("/repo", rel)
        if not os.path.exists(p):
            continue
        for i, line in enumerate(open(p).read().split("\n")):
            st = line.strip()
            if st.startswith("#[cfg(test)]"):
                break
            if st.startswith("//") or "assert" in st or "vprintln" in st:
                continue
            code = line.split("//")[0]
            for m in OFFBY.finditer(code):
                out.append({"file": rel, "line": i + 1, "col": m.start(), "op": m.group(1).strip(), "new": m.group(1).strip()[0] + " 0", "checks": checks, "text": st[:140]})
    return out

def sites_guards():
    """validation guards of the decoder: `if COND { ... return Err(..) ... }` with COND replaced by false (the check is
    gone). Acceptance of invalid input is not a property violation by itself; a panic, hang or unbounded expansion
    that becomes reachable is - the question is whether C03 / C05 (and the parsers' accept/reject oracles) notice."""
    out = []
    for rel, checks in FILES:
        if not any(x in rel for x in ["decoding/", "blocks/", "fse_decoder", "huff0_decoder"]):
            continue
        p = os.path.join("/repo", rel)
        if not os.path.exists(p):
            continue
        lines = open(p).read().split("\n")
        for i, l in enumerate(lines):
            st = l.strip()
            if st.startswith("#[cfg(test)]"):
                break
            if re.match(r'^\s*if (?!let )(.*) \{\s*$', l) and "assert" not in l:
                indent = len(l) - len(l.lstrip())
                j, found = i + 1, False
                while j < len(lines) and j < i + 12:
                    if lines[j].startswith(" " * indent + "}"):
                        break
                    if "return Err(" in lines[j]:
                        found = True
                    j += 1
                if found and j < len(lines) and lines[j].strip() == "}":
                    cs = list(checks)
                    for extra in ("C03", "C05"):
                        if extra not in cs:
                            cs.append(extra)
                    out.append({"file": rel, "line": i + 1, "col": l.index("if "), "op": "guard", "new": "false", "checks": cs, "text": st[:140]})
    return out

def summary():
    rows = []
    for f in sorted(glob.glob(os.path.join(VERIF, "mutants", "sweep", "*.jsonl"))):
        rows += [json.loads(l) for l in open(f) if l.strip()]
    tot = len(rows)
    by = {}
    for r in rows:
        by.setdefault(r["verdict"], []).append(r)
    print(f"{tot} mutants: " + ", ".join(f"{k}: {len(v)}" for k, v in sorted(by.items())))
    for r in [r for r in rows if r["verdict"].startswith("SURVIVED")]:
        print(f"  {r['file']}:{r['line']} `{r['op']}` -> `{r['new']}`   {r['text']}")
    return 0

def main():
    a = sys.argv[1:]
    if "--summary" in a:
        return summary()
    if "--count" in a:
        print(len(sites()), "operator sites,", len(sites_delete()), "deletion sites"); return 0
    root = a[a.index("--root") + 1]
    shard, nsh = map(int, a[a.index("--shard") + 1].split("/"))
    threads = a[a.index("--threads") + 1] if "--threads" in a else "5"
    limit = int(a[a.index("--limit") + 1]) if "--limit" in a else 10 ** 9
    import mutants
    repo, verif = mutants.prepare(root)
    env = dict(os.environ, VERIF_REPO=repo, VERIF_DIR=verif, VERIF_THREADS=threads, CARGO_NET_OFFLINE="true")
    os.makedirs(os.path.join(VERIF, "mutants", "sweep"), exist_ok=True)
    outp = os.path.join(VERIF, "mutants", "sweep", f"shard{shard}of{nsh}.jsonl")
    done = set()
    if os.path.exists(outp):
        for l in open(outp):
            if l.strip():
                r = json.loads(l); done.add((r["file"], r["line"], r["col"], r["new"]))
    mode = a[a.index("--mode") + 1] if "--mode" in a else "operators"
    all_sites = sites_delete() if mode == "delete" else sites_offbyone() if mode == "offbyone" else sites_guards() if mode == "guards" else sites()
    mine = [s for k, s in enumerate(all_sites) if k % nsh == shard]
    if "--part" in a:
        j, m = map(int, a[a.index("--part") + 1].split("/"))
        per = (len(mine) + m - 1) // m
        mine = mine[j * per:(j + 1) * per]
        outp = os.path.join(VERIF, "mutants", "sweep", f"{mode}-shard{shard}of{nsh}part{j}of{m}.jsonl")
    def done_now():
        d = set()
        for f in glob.glob(os.path.join(VERIF, "mutants", "sweep", "*.jsonl")):
            for l in open(f):
                if l.strip():
                    r = json.loads(l); d.add((r["file"], r["line"], r["col"], r["new"]))
        return d
    n = 0
    for s in mine:
        if (s["file"], s["line"], s["col"], s["new"]) in done_now():
            continue
        if n >= limit:
            break
        n += 1
        p = os.path.join(repo, s["file"])
        orig = open(p).read()
        lines = orig.split("\n")
        line = lines[s["line"] - 1]
        if s["op"] == "delete":
            lines[s["line"] - 1] = ""
        elif s["op"] == "guard":
            k = s["col"]
            assert line[k:k + 3] == "if ", (s, line)
            lines[s["line"] - 1] = line[:k] + "if false && " + line[k + 3:]
        elif s["op"] in ("+ 1", "- 1"):
            k = s["col"]
            assert line[k:k + 4] == " " + s["op"], (s, line)
            lines[s["line"] - 1] = line[:k] + " " + s["new"] + line[k + 4:]
        else:
            k = s["col"]
            op = " " + s["op"] + " "
            assert line[k:k + len(op)] == op, (s, line)
            lines[s["line"] - 1] = line[:k] + " " + s["new"] + " " + line[k + len(op):]
        open(p, "w").write("\n".join(lines))
        t0 = time.time()
        verdict, by, detail = None, None, ""
        try:
            for c in s["checks"]:
                rc, out = sh([os.path.join(verif, "check"), c, "--tier", "quick"], cwd=verif, env=env, timeout=900)
                viol = [l for l in out.splitlines() if l.startswith("VIOLATION")]
                if "error[E" in out or "could not compile" in out:
                    verdict = "does not compile"; detail = [l for l in out.splitlines() if l.startswith("error")][:1]
                    break
                if rc == 1 and viol:
                    what = [l.strip() for l in out.splitlines() if l.strip().startswith("what:")]
                    verdict, by, detail = "CAUGHT", c, (what[0][:200] if what else "")
                    break
                if rc == 124:
                    # the check did not come back within 15 minutes (quick checks take seconds to a minute): the
                    # mutant makes the code under test loop; that is noticed, though as a timeout and not as a verdict
                    verdict, by, detail = "CAUGHT (check does not terminate)", c, "no result within 900 s"
                    break
                if rc not in (0, 1):
                    # engine trouble under a mutant (a worker killed by the watchdog, ...): neither a catch nor
                    # silence; remembered, and the next check is asked
                    detail = (detail + f" [{c}: engine exit {rc}: " + " | ".join(out.strip().splitlines()[-2:])[:160] + "]") if isinstance(detail, str) else detail
            if verdict is None:
                rc, out = sh("cargo test --workspace --no-fail-fast --offline 2>&1 | grep -E '^test result|FAILED|panicked|^error' | head -20", cwd=repo, env=env, timeout=1500)
                failed = any(int(x) > 0 for x in re.findall(r"(\d+) failed", out)) or "error" in out
                ok = ("test result" in out) and not failed
                verdict = ("SURVIVED (suite green)" if ok else "survived (suite red: the repository's own tests notice it)") + (" + engine exit" if "engine exit" in str(detail) else "")
        finally:
            open(p, "w").write(orig)
        rec = dict(s, verdict=verdict, caught_by=by, detail=detail, seconds=round(time.time() - t0))
        with open(outp, "a") as f:
            f.write(json.dumps(rec) + "\n")
        print(f"[{shard}/{nsh}] {s['file']}:{s['line']} {s['op']}->{s['new']}: {verdict} {by or ''} ({rec['seconds']}s)", flush=True)
    return 0

if __name__ == "__main__":
    sys.exit(main())
