"""Build helpers shared by ./check, setup and the mutant runner. Python stdlib only; everything offline."""
import os, subprocess

VERIF = os.path.dirname(os.path.dirname(os.path.abspath(__file__)))
HARNESS = os.path.join(VERIF, "harness")
TARGET = os.path.join(VERIF, ".target")
REPO = os.environ.get("VERIF_REPO", "/repo")

class BuildError(Exception):
    pass

def cargo_env(extra_rustflags=""):
    env = dict(os.environ)
    env["CARGO_NET_OFFLINE"] = "true"
    env["RUSTFLAGS"] = ("--cfg zstd_rs_verif " + extra_rustflags).strip()
    env.pop("CARGO_TARGET_DIR", None)
    return env

def run(cmd, cwd, env, what):
    r = subprocess.run(cmd, cwd=cwd, env=env, stdout=subprocess.PIPE, stderr=subprocess.STDOUT, text=True)
    if r.returncode != 0:
        tail = "\n".join(r.stdout.splitlines()[-60:])
        raise BuildError(f"{what} failed ({' '.join(cmd)}):\n{tail}")
    return r.stdout

def build_zv():
    """release build of the harness against /repo's working tree with the hook cfg on"""
    run(["cargo", "build", "--release", "--offline", "-p", "zv"], HARNESS, cargo_env(), "harness build")
    return os.path.join(TARGET, "zv", "release", "zv")

def pre_run(pid, tier, env):
    """property-specific preparation (extra builds). Returns an exit code to stop, or None to continue."""
    return None
