"""Build helpers shared by ./check, setup and the mutant runner. Python stdlib only; everything offline."""
import os, subprocess

VERIF = os.path.dirname(os.path.dirname(os.path.abspath(__file__)))
HARNESS = os.path.join(VERIF, "harness")
TARGET = os.path.join(VERIF, ".target")
REPO = os.environ.get("VERIF_REPO", "/repo")

class BuildError(Exception):
    pass

def cargo_env(extra_rustflags=""):
    env = dict(os.environ)
    env["CARGO_NET_OFFLINE"] = "true"
    env["RUSTFLAGS"] = ("--cfg zstd_rs_verif " + extra_rustflags).strip()
    env.pop("CARGO_TARGET_DIR", None)
    return env

def run(cmd, cwd, env, what):
    r = subprocess.run(cmd, cwd=cwd, env=env, stdout=subprocess.PIPE, stderr=subprocess.STDOUT, text=True)
    if r.returncode != 0:
        tail = "\n".join(r.stdout.splitlines()[-60:])
        raise BuildError(f"{what} failed ({' '.join(cmd)}):\n{tail}")
    return r.stdout

def build_zv():
    """release build of the harness against /repo's working tree with the hook cfg on"""
    run(["cargo", "build", "--release", "--offline", "-p", "zv"], HARNESS, cargo_env(), "harness build")
    return os.path.join(TARGET, "zv", "release", "zv")

FEATDRV = os.path.join(VERIF, "featdrv")
FEATDRV_CONFIGS = {"std_hash": "std,hash", "std": "std", "hash": "hash", "none": ""}

def build_featdrv():
    """the C18 driver, once per feature set of ruzstd (hook cfg off: it uses the public API only)"""
    env = dict(os.environ)
    env["CARGO_NET_OFFLINE"] = "true"
    env.pop("RUSTFLAGS", None)
    out = {}
    for name, feats in FEATDRV_CONFIGS.items():
        env["CARGO_TARGET_DIR"] = os.path.join(TARGET, "featdrv-" + name)
        cmd = ["cargo", "build", "--release", "--offline"] + (["--features", feats] if feats else [])
        run(cmd, FEATDRV, env, f"featdrv build ({name})")
        out[name] = os.path.join(TARGET, "featdrv-" + name, "release", "featdrv")
    return out

def build_cli():
    """the repository's command line tool (release), for C19"""
    env = dict(os.environ)
    env["CARGO_NET_OFFLINE"] = "true"
    env.pop("RUSTFLAGS", None)
    env["CARGO_TARGET_DIR"] = os.path.join(TARGET, "cli")
    run(["cargo", "build", "--release", "--offline", "-p", "ruzstd-cli"], REPO, env, "cli build")
    return os.path.join(TARGET, "cli", "release", "ruzstd-cli")

def miri_c04(zv, env, max_cap, shards=16):
    """C04's Miri tier: dump every ring-buffer transition up to max_cap with the native engine, replay all of them
    under the interpreter in `shards` parallel processes; returns the path of a JSON summary."""
    import json, concurrent.futures
    work = os.path.join(VERIF, ".work", f"c04miri-{os.getpid()}")
    os.makedirs(work, exist_ok=True)
    jobs = os.path.join(work, "jobs.txt")
    res = {"max_cap": max_cap, "jobs": 0, "steps": 0, "shards_ok": 0, "errors": []}
    out_path = os.path.join(work, "miri.json")
    try:
        e2 = dict(env, C04_DUMP_JOBS=f"{jobs}:{max_cap}:0")
        run([zv, "C04"], VERIF, e2, "dumping C04 jobs")
        menv = dict(os.environ)
        menv["CARGO_NET_OFFLINE"] = "true"
        menv["RUSTFLAGS"] = "--cfg zstd_rs_verif"
        menv["MIRIFLAGS"] = "-Zmiri-disable-isolation"
        menv["CARGO_TARGET_DIR"] = os.path.join(TARGET, "c04miri")
        crate = os.path.join(VERIF, "c04miri")
        # build once (empty shard), then the shards in parallel
        run(["cargo", "+nightly", "miri", "run", "--offline", "--", jobs, str(shards), str(shards)], crate, menv, "miri build")
        def one(i):
            r = subprocess.run(["cargo", "+nightly", "miri", "run", "--offline", "--", jobs, str(i), str(shards)], cwd=crate, env=menv, stdout=subprocess.PIPE, stderr=subprocess.STDOUT, text=True)
            return i, r.returncode, r.stdout
        with concurrent.futures.ThreadPoolExecutor(max_workers=shards) as ex:
            for i, rc, out in ex.map(one, range(shards)):
                ok = [l for l in out.splitlines() if l.startswith("MIRI-OK")]
                if rc == 0 and ok:
                    res["shards_ok"] += 1
                    m = dict(kv.split("=") for kv in ok[0].split()[1:])
                    res["jobs"] += int(m["jobs"]); res["steps"] += int(m["steps"])
                else:
                    tail = "\n".join(l for l in out.splitlines() if l.strip())[-3000:]
                    res["errors"].append(tail)
    except BuildError as e:
        res["machinery_error"] = str(e)[-1500:]
    json.dump(res, open(out_path, "w"))
    return out_path

ASAN_TRIPLE = "x86_64-unknown-linux-gnu"

def build_zv_asan():
    """the same harness built by the nightly toolchain with AddressSanitizer (own target directory)"""
    env = cargo_env("-Zsanitizer=address")
    env["CARGO_TARGET_DIR"] = os.path.join(TARGET, "zv-asan")
    run(["cargo", "+nightly", "build", "--release", "--offline", "--target", ASAN_TRIPLE, "-p", "zv"], HARNESS, env, "harness build (AddressSanitizer)")
    return os.path.join(TARGET, "zv-asan", ASAN_TRIPLE, "release", "zv")

def asan_tier(pid, env):
    """C03 / C04, thorough tier: run the AddressSanitizer build of the engine over the quick bounds in a scratch
    VERIF_DIR (its evidence and replays stay there); returns the path of a JSON summary that the main engine folds
    into its own evidence and verdict (ev.rs)."""
    import json, glob, shutil, time
    work = os.path.join(VERIF, ".work", f"asan-{pid}-{os.getpid()}")
    shutil.rmtree(work, ignore_errors=True)
    os.makedirs(os.path.join(work, "evidence"), exist_ok=True)
    res = {"rc": -1, "wall_s": 0.0, "coverage": {}, "violations": [], "report": ""}
    out_path = os.path.join(work, "asan.json")
    try:
        zv = build_zv_asan()
        shutil.copy(os.path.join(VERIF, "known_findings.json"), work)
        e2 = dict(env, VERIF_DIR=work, VERIF_TIER="quick", VERIF_ASAN_BUILD="1", ASAN_OPTIONS="detect_leaks=0:abort_on_error=1:symbolize=1:hard_rss_limit_mb=6000:max_allocation_size_mb=2048")
        if pid == "C03":
            # sanitizer processes are several times larger than native ones: at most 8 workers (as measured: 10 min)
            try:
                e2["VERIF_THREADS"] = str(min(8, int(e2.get("VERIF_THREADS", "8"))))
            except ValueError:
                e2["VERIF_THREADS"] = "8"
        if pid == "C04":
            e2.setdefault("C04_MAX_CAP", "65")  # exhausts under the sanitizer in about a minute (129 hits the engine's wall cap)
        for k in ("VERIF_ASAN_RESULT", "C04_MIRI_RESULT", "C04_MIRI", "VERIF_ASAN"):
            e2.pop(k, None)
        t0 = time.time()
        r = subprocess.run([zv, pid, "--tier", "quick"], cwd=VERIF, env=e2, stdout=subprocess.PIPE, stderr=subprocess.STDOUT, text=True, errors="replace")
        res["wall_s"] = round(time.time() - t0, 1)
        res["rc"] = r.returncode
        lines = r.stdout.splitlines()
        at = next((i for i, l in enumerate(lines) if "ERROR: AddressSanitizer" in l), None)
        if at is not None and any(w in lines[at] for w in ("out of memory", "allocation-size-too-big", "rss limit", "out-of-memory")):
            # the sanitizer ran out of memory or refused a huge request: not an invalid access (the native tier has
            # the heap oracle); a failure of this tier, not a verdict
            res["machinery_error"] = "the AddressSanitizer run ended on a memory limit: " + lines[at][:300]
            at = None
            r.returncode = r.returncode if r.returncode not in (0, 1) else 2
        if at is not None:
            res["report"] = "\n".join(lines[at:at + 40])
        try:
            ev = json.load(open(os.path.join(work, "evidence", f"{pid}.json")))
            res["coverage"] = {k: v for k, v in ev.get("coverage", {}).items() if isinstance(v, (int, float, bool))}
        except Exception:
            pass
        for f in sorted(glob.glob(os.path.join(work, "replays", pid, "*.json")))[:20]:
            try:
                v = json.load(open(f)); res["violations"].append({"identity": v.get("identity", "?"), "what": v.get("what", "")[:1500]})
            except Exception:
                pass
        if r.returncode not in (0, 1) and at is None and "machinery_error" not in res:
            res["machinery_error"] = f"the AddressSanitizer build of the engine ended with status {r.returncode}: " + "\n".join(lines[-15:])[-1200:]
        if r.returncode == 1 and not res["violations"] and at is None:
            res["machinery_error"] = "the AddressSanitizer build of the engine exited 1 without a replay file: " + "\n".join(lines[-15:])[-1200:]
        print(f"[check] AddressSanitizer tier of {pid}: exit {r.returncode} in {res['wall_s']} s, {len(res['violations'])} violation(s), report={'yes' if res['report'] else 'no'}", flush=True)
    except BuildError as e:
        res["machinery_error"] = str(e)[-1500:]
    json.dump(res, open(out_path, "w"))
    return out_path

def pre_run(pid, tier, env):
    """property-specific preparation (extra builds). Returns an exit code to stop, or None to continue."""
    try:
        if pid == "C04" and (tier == "thorough" or os.environ.get("C04_MIRI")):
            cap = int(os.environ.get("C04_MIRI_CAP", "17"))
            env["C04_MIRI_RESULT"] = miri_c04(os.path.join(TARGET, "zv", "release", "zv"), env, cap)
        if pid in ("C03", "C04") and (tier == "thorough" or os.environ.get("VERIF_ASAN")):
            env["VERIF_ASAN_RESULT"] = asan_tier(pid, env)
        if pid == "C18":
            build_featdrv()
        if pid == "C19":
            env["VERIF_CLI"] = build_cli()
    except BuildError as e:
        print(f"MACHINERY-ERROR build failed:\n{e}")
        return 2
    return None
