"""Build helpers shared by ./check, setup and the mutant runner. Python stdlib only; everything offline."""
import os, subprocess

VERIF = os.path.dirname(os.path.dirname(os.path.abspath(__file__)))
HARNESS = os.path.join(VERIF, "harness")
TARGET = os.path.join(VERIF, ".target")
REPO = os.environ.get("VERIF_REPO", "/repo")

class BuildError(Exception):
    pass

def cargo_env(extra_rustflags=""):
    env = dict(os.environ)
    env["CARGO_NET_OFFLINE"] = "true"
    env["RUSTFLAGS"] = ("--cfg zstd_rs_verif " + extra_rustflags).strip()
    env.pop("CARGO_TARGET_DIR", None)
    return env

def run(cmd, cwd, env, what):
    r = subprocess.run(cmd, cwd=cwd, env=env, stdout=subprocess.PIPE, stderr=subprocess.STDOUT, text=True)
    if r.returncode != 0:
        tail = "\n".join(r.stdout.splitlines()[-60:])
        raise BuildError(f"{what} failed ({' '.join(cmd)}):\n{tail}")
    return r.stdout

def build_zv():
    """release build of the harness against /repo's working tree with the hook cfg on"""
    run(["cargo", "build", "--release", "--offline", "-p", "zv"], HARNESS, cargo_env(), "harness build")
    return os.path.join(TARGET, "zv", "release", "zv")

FEATDRV = os.path.join(VERIF, "featdrv")
FEATDRV_CONFIGS = {"std_hash": "std,hash", "std": "std", "hash": "hash", "none": ""}

def build_featdrv():
    """the C18 driver, once per feature set of ruzstd (hook cfg off: it uses the public API only)"""
    env = dict(os.environ)
    env["CARGO_NET_OFFLINE"] = "true"
    env.pop("RUSTFLAGS", None)
    out = {}
    for name, feats in FEATDRV_CONFIGS.items():
        env["CARGO_TARGET_DIR"] = os.path.join(TARGET, "featdrv-" + name)
        cmd = ["cargo", "build", "--release", "--offline"] + (["--features", feats] if feats else [])
        run(cmd, FEATDRV, env, f"featdrv build ({name})")
        out[name] = os.path.join(TARGET, "featdrv-" + name, "release", "featdrv")
    return out

def build_cli():
    """the repository's command line tool (release), for C19"""
    env = dict(os.environ)
    env["CARGO_NET_OFFLINE"] = "true"
    env.pop("RUSTFLAGS", None)
    env["CARGO_TARGET_DIR"] = os.path.join(TARGET, "cli")
    run(["cargo", "build", "--release", "--offline", "-p", "ruzstd-cli"], REPO, env, "cli build")
    return os.path.join(TARGET, "cli", "release", "ruzstd-cli")

def pre_run(pid, tier, env):
    """property-specific preparation (extra builds). Returns an exit code to stop, or None to continue."""
    try:
        if pid == "C18":
            build_featdrv()
        if pid == "C19":
            env["VERIF_CLI"] = build_cli()
    except BuildError as e:
        print(f"MACHINERY-ERROR build failed:\n{e}")
        return 2
    return None
