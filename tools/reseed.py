#!/usr/bin/env python3
"""reseed.py [id ...]: re-run every stored independently seeded change (seeded/<id>/patch.diff) against the quick
checks named in its meta.json, in the scratch copies of tools/mutants.py (never /repo), record the outcome as
meta["current"], and regenerate seeded/RESULTS.md from all meta.json files."""
import glob, json, os, re, shutil, subprocess, sys, time
VERIF = os.path.dirname(os.path.dirname(os.path.abspath(__file__)))

def main():
    only = sys.argv[1:]
    dirs = sorted(d for d in glob.glob(os.path.join(VERIF, "seeded", "C*")) if os.path.isdir(d))
    for d in dirs:
        name = os.path.basename(d)
        if only and name not in only:
            continue
        meta = json.load(open(os.path.join(d, "meta.json")))
        checks = ",".join(meta["checks_run"])
        os.makedirs("/tmp/seedpatches", exist_ok=True)
        tmp = f"/tmp/seedpatches/{checks.replace(',', '_')}-reseed-{name}.patch"
        shutil.copy(os.path.join(d, "patch.diff"), tmp)
        t0 = time.time()
        r = subprocess.run([os.path.join(VERIF, "tools", "mutants.py"), "--no-suite", "--checks", checks, tmp], stdout=subprocess.PIPE, stderr=subprocess.STDOUT, text=True, timeout=5400)
        line = [l for l in r.stdout.splitlines() if l.startswith("(")]
        verdict = "CAUGHT" if "'CAUGHT'" in r.stdout else "MISSED"
        per = re.findall(r"(C\d\d): exit (\d+), (\d+) violation", line[-1] if line else "")
        meta["current"] = {"verdict": verdict, "caught_by": [p for p, rc, n in per if rc == "1" and int(n) > 0], "not_caught_by": [p for p, rc, n in per if not (rc == "1" and int(n) > 0)], "detail": (line[-1] if line else r.stdout[-400:])[:1200], "when": time.strftime("%Y-%m-%d %H:%M:%S"), "seconds": round(time.time() - t0)}
        json.dump(meta, open(os.path.join(d, "meta.json"), "w"), indent=1)
        print(name, verdict, meta["current"]["caught_by"], meta["current"]["not_caught_by"], flush=True)
    rows = []
    for d in dirs:
        m = json.load(open(os.path.join(d, "meta.json")))
        cur = m.get("current", {})
        rows.append(f"| {os.path.basename(d)} | {m['needs_to_manifest']} | {','.join(m['checks_run'])} | {m['verdict']} | {cur.get('verdict', '-')} | {', '.join(cur.get('caught_by', []))} | {', '.join(cur.get('not_caught_by', []))} |")
    with open(os.path.join(VERIF, "seeded", "RESULTS.md"), "w") as f:
        f.write("# Independently seeded changes\n\nEach row: a change written by a sub-agent that saw only the property text and a scratch worktree; confirmed by tools/seeded.py (repository suite green with it, demonstration fails with it and passes without). 'first run' is the verdict of the quick checks as they were when the change arrived; 'now' is the verdict of the current checks (tools/reseed.py), after the checks that missed were strengthened. Details per change: seeded/<id>/meta.json.\n\n| change | needs in order to manifest | quick checks run | first run | now | caught by | not caught by |\n|---|---|---|---|---|---|---|\n")
        f.write("\n".join(rows) + "\n")
    return 0

if __name__ == "__main__":
    sys.exit(main())
