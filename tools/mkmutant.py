#!/usr/bin/env python3
"""mkmutant.py <name> <file-relative-to-/repo> <old> <new> [<file> <old> <new> ...] : writes mutants/<name>.patch (does not leave /repo modified)"""
import subprocess, sys, os
name = sys.argv[1]
trip = sys.argv[2:]
assert len(trip) % 3 == 0
try:
    for i in range(0, len(trip), 3):
        p = os.path.join("/repo", trip[i]); s = open(p).read()
        old, new = trip[i+1], trip[i+2]
        assert s.count(old) == 1, f"{trip[i]}: pattern occurs {s.count(old)} times: {old!r}"
        open(p, "w").write(s.replace(old, new))
    d = subprocess.run(["git", "-C", "/repo", "diff"], capture_output=True, text=True).stdout
    assert d.strip()
    open(f"/verif/mutants/{name}.patch", "w").write(d)
    print("wrote", name)
finally:
    subprocess.run(["git", "-C", "/repo", "checkout", "--", "."])
