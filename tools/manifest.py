#!/usr/bin/env python3
"""Writes /verif/MANIFEST.json from the table below (single source of truth) and validates it against the schema."""
import json, os, subprocess, sys
VERIF = os.path.dirname(os.path.dirname(os.path.abspath(__file__)))

CHECKS = {
 "C04": dict(level="model_checking", engine="xplore",
   technique="explicit-state BFS over the real RingBuffer/DecodeBuffer (history replay, key = cap/head/tail), VecDeque reference model, guard-zone allocator",
   text="Every reachable (capacity, head, tail) state of the real ring buffer up to capacity 129 (quick) / 257 (thorough) is expanded with every operation the decoder performs and every operand size; each transition runs on two instances with different allocator poison, is compared with a VecDeque after the step and has the guard zones around the allocation checked. A second closed system drives DecodeBuffer (push, repeat incl. dictionary reach and overlapping copies, every drain path with partial and failing sinks, reset). The thorough tier additionally replays every (state, operation) pair with capacity <= 17 and every reduced-menu DecodeBuffer history under Miri (16 shards), which decides 'no undefined behaviour' per enumerated execution. Right level because the property quantifies over operation histories of a small control state; contents never influence control flow.",
   note="Trusts: the key argument (branches compare only cap/head/tail/start/len and 16-byte multiples), 256-byte guard zones (farther stray writes and uninitialised reads are visible only in the thorough tier's Miri replay, capacities <= 17), rustc; preconditions are those DecodeBuffer establishes.",
   design="3/C04"),
}

CHECKS["C14"] = dict(level="exploration", engine="sweep",
   technique="complete enumeration of finite value / byte-pattern domains through pass-through hooks against RFC tables in zmodel",
   text="Every literal length 0..=131071, match length 3..=131074, offset value (all 2^32-1 in thorough, all below 2^22 plus every code boundary in quick), sequence count 1..=98047 through the writer, every 1/2/3-byte count pattern and truncation through the parser, all 2^24 block headers, every serialisable block header, all 256x256 descriptor/window byte pairs x field boundary values (+ all truncations), all 1/2/3-byte literals-header strings, the 4-byte form (complete in thorough) and the 5-byte form (each field complete), the raw-literals writer for every length, the repeat-offset rule over a closed value set, and the frame header written for every matcher window up to 2^41. Finite domains, so the right level is complete enumeration; exhaustive:true per sub-domain is reported separately.",
   note="Trusts zmodel::tables / walker header parsers as a transcription of RFC 8878 (independently pinned to libzstd by the frames of C01). The reserved frame-descriptor bit is deliberately not compared (the crate ignores it; no property forbids that).",
   design="3/C14")

CHECKS["C12"] = dict(level="exploration", engine="sweep",
   technique="complete small-scope enumeration of distributions, description byte strings, histograms and symbol strings against zmodel's FSE; per-state frames pinned to libzstd",
   text="Decoder: every normalised distribution for accuracy log 5 over <=5 symbols and logs 6..9 over <=3 symbols (plus shaped families incl. every zero-run length and all alphabet sizes) through build_from_probabilities and through build_decoder(serialised description), compared state by state with the specification table and with the bytes consumed; every byte string of length <=3 (followed by padding) as a description for all four (max log, alphabet) settings: accept/reject, table and length must equal the specification parser's. Predefined tables: crate decoder == crate encoder == zmodel, and zmodel is pinned to libzstd with one frame per state and per (state, next-bits) transition (~6.3k frames, also decoded by the crate). Encoder, production parameters only: every histogram over <=5 symbols at boundary code positions with counts in {0,1,2,3,5,8,13,100,5000}: no panic, probabilities sum to 2^log, 5<=log<=max, no seen symbol lost, description parses back (spec parser and crate decoder) consuming all bytes, and next_state/start_state checked against the decoding table for EVERY (symbol, state index). Every symbol string of length 4..=9/11 over alphabets 2,3,4 through the interleaved coder decodes to itself. Bit writer and both readers for every width sequence to depth 5/6.",
   note="Trusts zmodel::fse (transcribed from RFC 8878 4.1; predefined tables observationally pinned to libzstd 1.5.7 except offset codes above 20/26, which need >64 MiB windows). Out-of-domain calls the compressor never makes (interleaved coder on <4 symbols, zero-bit forward reads) are excluded.",
   design="3/C12")

CHECKS["C13"] = dict(level="exploration", engine="sweep",
   technique="complete enumeration over code shapes (symbol count x placement x rank order) and over all short direct weight vectors, against zmodel's canonical Huffman; sections wrapped in frames for libzstd",
   text="The encoder's code shape depends only on the number of used symbols and their rank order, so every count 2..=256 x 5 placements x 8 rank orders and every rank permutation up to 7/8 symbols is built: complete prefix code (Kraft sum exactly 1, pairwise prefix-free), depth <= 11, monotone in frequency, description direct iff <= 16 weights else FSE-compressed and < 128 bytes, description parsed by the specification parser and by the crate's decoder into the same code lengths / the canonical table, canonical codes equal the encoder's codes. One- and four-stream coding for every split remainder (lengths 1..=12, 1021..=1031, around 4096 / 16384) decoded by the specification. Production path: compress_literals for every symbol count 2..=256 x 3 skews x 10 lengths wrapped in a frame and decoded by the strict walker, libzstd and the crate. Decoder: every direct weight vector of <= 6/7 weights over 0..=15 (16.7M / 268M) and shaped vectors of all lengths 1..=128: accept <=> completes to a power of two with depth <= 11, table equal to the canonical table entry by entry.",
   note="Trusts zmodel::huf (RFC 8878 4.2), bound to libzstd 1.5.7 by the section frames. Four-stream coding of fewer than 6 literals is outside the compressor's domain and excluded.",
   design="3/C13")

CHECKS["C01"] = dict(level="model_checking", engine="xplore",
   technique="explicit-state BFS over the abstract decoder state with block archetypes as alphabet, each transition a real frame bound to libzstd; plus complete libzstd parameter matrix",
   text="What survives from block to block is a small control state (Huffman table live?, LL/OF/ML table none|predefined|rle|fse). All 56 reachable abstract states are expanded; from each, every applicable block archetype (raw/RLE blocks; literals raw|rle|Huffman 1/4 streams x size formats x direct/FSE weights|treeless; count forms 1/2/3 bytes; 5^3 table modes incl. repeat and max-log FSE; payload patterns: new offsets, every repeat-offset code with ll=0 and ll>0 incl. rep1-1, overlapping matches, match reaching the frame's first byte, LL code 35, ML code 52, 200 and 0x7F00 sequences) is appended and the frame is encoded by the spec encoder; libzstd must decode it to the spec executor's plaintext (binding), the strict walker must agree, and the crate must return the same bytes and consumed count through two front ends. Quick: full alphabet (60k archetypes) from the initial state, pairwise-reduced alphabet from the other 55; thorough: full alphabet everywhere. Second family: libzstd levels x windowLog x LDM x MinMatch x TargetCBlockSize x checksum/content-size x flush pattern over 10 inputs (every 13th of 21.6k in quick, all in thorough), each frame accepted by the walker and decoded by the crate through up to 7 front ends with metadata compared. Third: header field widths at boundaries through the public accessors, dictionary id reporting. Fourth: 52..57 combined extra bits behind up to 64 MiB of history.",
   note="libzstd 1.5.7 is the meaning of 'valid'; frames it rejects are dropped and counted. Abstract states merge concrete tables of the same kind (concrete tables are enumerated in C12/C13).",
   design="3/C01")
CHECKS["C03"] = dict(level="fault_enumeration", engine="sweep",
   technique="deviation-bounded fault enumeration (0/1/2 faults) on libzstd-validated seed frames plus complete byte-level spaces behind a valid prefix, in rlimit'ed watchdog'ed worker processes",
   text="0 faults = ~260/520 seed frames (one per archetype class, all valid per libzstd); 1 fault = every truncation and every position x {0x00,0xFF,b^1,b^0x80,b+1} (all 255 values on frames <= 120 bytes in thorough); 2 faults = all position pairs x 9 value pairs on frames <= 40 bytes (thorough). Complete spaces: all 2^24 block headers, all compressed-block bodies of <= 2/3 bytes, all FSE descriptions of <= 2/3 bytes at the LL/OF/ML/Huffman-weight positions, all weight-header bytes x bodies, all 2-byte literals-header prefixes, all direct weight vectors of <= 4/5 weights. Hand-built hostile but well-formed frames (amplification, offsets past output, rep1-1=0, treeless/repeat without a table, RLE symbols beyond the alphabet, jump table past the end, sequence count above the bit stream, reserved block type, 128 MiB window, 4 GiB skippable frame). Dictionary truncations and byte faults, then decoding with every mutant that parsed. Each case through 8 front ends (2 for byte-complete spaces); after an error: drain, query every accessor, reset onto a good frame which must decode correctly on the same object. Oracle: no panic, no process death, no watchdog expiry (10 s), < 1 GiB heap.",
   note="Workers run with an 8 GiB address-space limit; a worker death is re-run alone twice before it is reported. Out-of-bounds accesses that do not crash are not visible here (C04 covers the unsafe code, with a Miri replay in its thorough tier).",
   design="3/C03")

CHECKS["C05"] = dict(level="exploration", engine="sweep",
   technique="complete product of amplification archetypes x windows x placements x drivers with a byte-exact invariant after every call, in rlimit'ed worker processes",
   text="Archetypes built with the spec encoder (which does not cap regenerated sizes): n in {1..65000} maximum-length matches through all-RLE tables, literals sections declaring 128 KiB / 128 KiB+1 / 256 KiB / 1 MiB-1 via RLE and via 1-bit Huffman codes with the 18-bit size field, blocks regenerating exactly 128 KiB and 128 KiB+1 through sequences. Full product with windows {1 KiB, 8 KiB, 1 MiB}, placements {first, after a raw block, after two windows of output} and 9 drivers (decode_blocks All/UptoBlocks(1)/UptoBytes(1)/UptoBytes(1 MiB), StreamingDecoder reads of 1/4096/1 MiB, decode_all, decode_from_to). After every call: bytes added <= 128 KiB per block decoded, <= budget-1+128 KiB under a byte budget, held <= window + requested + 128 KiB for the streaming reader, peak heap of the call within stated constants; over-limit blocks must end in an error, exact-limit blocks must decode to the executor's plaintext.",
   note="The byte bound is exact (ring length via the read-only hook); heap constants (3x + 4 MiB) are generous. Worker processes have a 6 GiB address-space limit and a 20 s watchdog, so an unbounded expansion is a verdict, not a crash.",
   design="3/C05")

CHECKS["C06"] = dict(level="model_checking", engine="xplore",
   technique="explicit-state BFS over driver programs on the real FrameDecoder (history replay, canonical key incl. ring geometry and running hash), known plaintext as reference model",
   text="System = one decoder + one source + sinks. From every reachable state every operation of the menu is applied: decode_blocks with All / UptoBlocks(1,2) / UptoBytes(0,1,W,2^20); collect; read of 0,1,7,W,W+1,2^20 bytes; collect_to_writer into 8 sink behaviours (everything, 1 byte per write, Ok(0) immediately, Ok(0) after 5, 3 per write up to 1000, WouldBlock immediately, WouldBlock after 250, hard error after 7) - fine-grained drains limited to 3 per path; sources: slice and k-byte-per-read readers. Second system: decode_from_to with every chunk length from the current position x target lengths {0,1,3,64,2^20} (every chunking of frames up to 70 bytes, boundary chunkings of larger ones). After every step: delivered bytes are the next bytes of the known content (nothing lost, duplicated or reordered when a sink stops early), consumed counters equal what was taken from the source, decode_from_to never reports more than it was given. At every terminal state: content, exact consumption, checksums. Frames: 6-block 1 KiB-window frame whose matches reach back a full window (with/without checksum), single RLE block, empty last block, content smaller than window; thorough adds 12 blocks and a 300 KB libzstd frame.",
   note="Key soundness: equal key => same frame position, same buffered bytes (plaintext is fixed), same ring geometry, same hash state, so equal futures. Fine-grained drains are bounded per path because delivered-length x ring-geometry is otherwise quadratic; ring geometry in depth is C04.",
   design="3/C06")
CHECKS["C08"] = dict(level="model_checking", engine="xplore",
   technique="same explicit-state exploration as C06 with the running hash value in the state key; independent XXH64 at every terminal state; drain-path x ring-layout coverage matrix; exhaustive compressor reuse histories",
   text="The decoder's running hash value is part of the BFS key, so a drain path that hashes the wrong bytes leads to a distinct state whose terminal check fails: at every terminal state (finished, everything taken, by any mix of read / read_all / collect / collect_to_writer with partial and failing sinks) get_calculated_checksum() must equal the low 32 bits of zmodel's XXH64 of the bytes delivered, and get_checksum_from_data() the stored field. The evidence carries the matrix {8 drain paths} x {ring contiguous, wrapped}; empty cells are listed. Compressor: every history of up to 2/3 frames over 8 inputs (empty, 1 byte, sub-block, exactly one block, one block + 1, two blocks, incompressible 300 KB) through one reused FrameCompressor at both levels must end with XXH64(input) & 0xFFFFFFFF and carry the flag.",
   note="XXH64 in zmodel is cross-checked against twox-hash on every run and against libzstd through every checksummed model frame.",
   design="3/C08")

CHECKS["C09"] = dict(level="exploration", engine="sweep",
   technique="complete lattice / matrix / history enumeration against libzstd-with-dictionary and the zmodel executor",
   text="Five dictionaries (three trained by libzstd's ZDICT on deterministic samples, two built by the model with chosen tables, offsets (5,9,13) and 64 bytes of content; all accepted by libzstd and parsed identically by the model). (1) libzstd frames over levels x windowLog {default,10,17} x dictID flag x 6 inputs: decoded by id / by force_dict to the input, refused with DictNotProvided{that id} without the dictionary, every frame also accepted by the strict walker with the model's parse of the dictionary. (2) Model frames whose first block is treeless, uses Repeat mode per table, and every repeat-offset code, so the dictionary's Huffman table, FSE tables and offsets ARE the starting state (1.9k frames, each validated by libzstd with the dictionary). (3) The complete seam lattice: output position 0..=8 x literal run {0,2} x reach into the dictionary 1..=len+1 x match length 3..=12/20 - matches inside the dictionary, ending at the seam, crossing it, overlapping; reach len+1 must be rejected. (4) Every history of 3/4 items over {frame with dictionary A, frame with dictionary B, plain frame, plain frame decodable only with leaked tables, plain frame decodable only with leaked content, unregistered id} on one decoder equals the outcome on fresh decoders.",
   note="libzstd 1.5.7 defines valid dictionaries/frames; the rejection of offsets beyond dictionary+output is taken from the property (libzstd tolerates reading into the dictionary's entropy section, counted in the evidence). Nothing is claimed about reaching the dictionary after the window has slid.",
   design="3/C09")
CHECKS["C10"] = dict(level="fault_enumeration", engine="sweep",
   technique="every truncation point x 8 front ends, every trailer byte, every target size, all multi-frame sequences up to length 3",
   text="For ~170/420 frames (seeds, compressor output, libzstd frames): (a) frame ++ each of 261 trailers (empty, every byte value, magic prefixes, a second frame, a skippable frame) through counting readers incl. 1- and 5-byte-per-read readers: bytes taken == bytes_read_from_source == frame length, content exact, finished; (b) EVERY strict prefix through all 8 front ends: an error, never finished once the header was read, delivered bytes a prefix of the content; (c) every sequence of <= 3 items over {3 small frames, skippable frames of length 0 and 5 for all 16 magic values} with/without trailing garbage and truncated skippable frames through decode_all and decode_all_to_vec with EVERY target size 0..=total+1: exact total or TargetTooSmall, canaries around the target intact, vector length/prefix/capacity unchanged on failure.",
   note="Truncation points of (b) are complete per frame; the frame set is a spread over the archetypes, not all frames.",
   design="3/C10")

CHECKS["C02"] = dict(level="exploration", engine="sweep",
   technique="complete small-scope enumeration of inputs + threshold-directed sweeps + exhaustive short histories of the block-decision automaton, reuse and read fragmentation; oracles: this crate's decoder and libzstd",
   text="(a) every string over {a,b} up to length 14/17, {a,b,c} up to 9/11, {a,b,c,d} up to 6/8 at both levels (135k / 1.2M round trips); (b) families that sweep each encoder threshold: lengths 0..10 and 128 KiB*k-2..+2 for k<=3 x 4 content kinds, repeat-free skewed literal counts across 1024 (Huffman on/off) and 16384 (size format) with the literal counts actually observed recorded, distinct-symbol counts at 1,2,3,4,15..19,127..129,254..256, match lengths and literal runs at every code boundary, period structures giving 12k sequences per block; (c) the block encoder's only cross-block state is last_huff_table, so its decision automaton is explored with one 128 KiB generator per decision (RLE, raw fallback, Huffman, raw literals, treeless) plus a marginal band of near-uniform 254/255-symbol blocks (generators for which the literals hook reports Huffman accepted while the block is stored raw are listed in the evidence): all sequences of two blocks (+ three over a reduced alphabet in thorough) + a short last block, with the observed previous->next decision matrix recorded; (d) every history of <= 2/3 frames over 8 inputs through one reused FrameCompressor; (e) every composition of the length as read sizes for short inputs and read sizes {1,7,4096,128Ki-1,128Ki,128Ki+1} for multi-block inputs must give byte-identical output.",
   note="libzstd 1.5.7 is the reference decoder. Byte equality of a reused compressor's output with a fresh one's is only counted (recycled match-finder buffers may find other matches); the property asks for correct frames.",
   design="3/C02")
CHECKS["C15"] = dict(level="exploration", engine="sweep",
   technique="C02's executions judged by zmodel's strict walker and the size formula",
   text="Every frame produced in C02's families (a)-(d) is parsed by the strict walker: magic, header fields consistent, every block <= 128 KiB stored and regenerated, exactly one last block, every offset within the declared window and within the data produced so far, section sizes consistent, every Huffman / sequence bit stream consumed exactly, treeless / repeat only after a definition, nothing after the last block but a correct 4-byte checksum; and len(frame) <= len(input) + 6 + 3*max(1, ceil(len/128 KiB)) + 3 + 4, especially for incompressible inputs at every length 128 KiB*k + d.",
   note="The walker is bound to libzstd on every run of C01/C09 (it must accept every libzstd frame with libzstd's plaintext).",
   design="3/C15")

CHECKS["C07"] = dict(level="model_checking", engine="xplore",
   technique="exhaustive enumeration of decoder histories (episodes) as states and field-directed probes as transitions, differential oracle against a fresh decoder",
   text="States = decoders after every history of <= 2 episodes (all 80x80 pairs; thorough adds 3-episode histories over the heavy progress points) with 0/1/2 dictionaries registered. An episode = one of 16 setter frames x 5 progress points (header only, one block, all blocks undrained, drained, whole multi-frame call). Each setter frame puts one kind of state into the decoder: Huffman tables of both description kinds, FSE and RLE tables per LL/OF/ML, offset history, a 64 KiB window of 0xAA, dictionary tables and content (two dictionaries), checksum, block counter, single segment; six more fail or are rejected at a chosen point (truncated, corrupt block, window above limit, unregistered dictionary, bad magic, empty). Transitions = 28 probes x 3 front ends out of every state; probes include frames that are INVALID on a fresh decoder and become decodable only if that state leaked (treeless first block for each table kind, Repeat mode per table for leaked RLE and FSE tables, matches reaching 1/3/40/1000 bytes before the frame) and valid frames whose content depends on the initial offset history. Oracle: the probe's complete outcome (result, error text, bytes, both checksums, consumed count, content size) equals the outcome on a brand-new decoder with the same dictionaries.",
   note="Differential oracle, no hand-written expectations except that state-dependent invalid probes must fail on a fresh decoder. The state after a failed reset is not compared, only the next frame's outcome.",
   design="3/C07")
CHECKS["C16"] = dict(level="exploration", engine="sweep",
   technique="complete enumeration of valid parses of small inputs through a scripted Matcher on the public trait, restricted-move enumeration on emit-able blocks, threshold-directed parses",
   text="A scripted Matcher replays a given parse through the public Matcher trait and FrameCompressor::new_with_matcher. (a) every input over {a,b} of length 3..=12/14 cut into blocks of 4 and 11 with EVERY valid parse of every block (all tilings by literal runs and matches of length >= 3 at every offset whose source equals the target: zero-length literal runs, overlapping matches, matches into earlier blocks); (b) 64-byte periodic inputs in blocks of 32 with every parse of <= 3/4 sequences over ll {0,1,2,5} x ml {3,4,7,16,rest} x offset {period, 2*period, max, 1} - these are emitted in compressed form (counted); (c) directed: sequence counts 1,2,126..129,255,256,0x7EFF..0x7F01,0x7FFF..0x8001,43689 per block, single-sequence blocks, all literal lengths 0, every LL/ML code boundary up to a whole block, offsets 1 / exactly the window / exactly n blocks back for windows 1 KiB, 128 KiB, 8 MiB, Huffman-rawfallback-Huffman block triples, literal counts 1023..1026, > 1024 literals of one byte value. Oracle: no panic, this crate's decoder and libzstd return the input, the strict walker accepts, declared window >= reported window.",
   note="Every parse fed is checked by the harness to be well-behaved (tiles the block, ml >= 3, offset within window and history, source == target). C15's size formula is not applied (a user matcher may choose small spaces).",
   design="3/C16")
CHECKS["C17"] = dict(level="model_checking", engine="xplore",
   technique="exhaustive enumeration of all operation sequences up to a depth on the real MatchGeneratorDriver with a scaled-down window (hook constructor), colliding 2-letter alphabet, concatenated-window reference model",
   text="Every sequence of operations up to the stated depth on the real driver built with slice sizes 8 and 12 and windows of 1-3 slices: each operation commits one block over a 2-letter alphabet (ALL blocks of the stated lengths) and either runs the matcher or skips it; one reset may occur at any point and reuse after reset recycles data buffers and suffix stores. The two letters are derived at run time through the key-function hook so that two distinct 5-byte keys share a suffix-store slot (the run refuses to proceed vacuously otherwise). After every matched block: runs and matches concatenate to the block; every match equals its source byte for byte at the stated distance in the concatenation of the retained window entries; offset <= advertised window and <= retained bytes; the window ends with the block and never exceeds the advertised size; a recycled driver answers exactly like a new one. Quick: 23 M sequences (depth 2 with all block lengths 1..=8, depth 3 with length 6, slice 12 depth 2); thorough adds depth 3/4 and slice 12 with full-length blocks.",
   note="The production configuration (128 KiB slice, 1 slice) differs only in constants and is exercised end to end by C02; the scaled-down window is what makes eviction, cross-slice offsets and recycling reachable exhaustively.",
   design="3/C17")

CHECKS["C11"] = dict(level="exploration", engine="sweep",
   technique="complete enumeration of a finite configuration space (descriptors x limits x history position x front end) against the reference rule window <= min(limit, format max), with an allocation meter",
   text="All 256 window descriptors and 26 single-segment content sizes (every field width at its boundaries, default limit +-1, format maximum +-1, 2^63, 2^64-1) x limits {unset, 0, 1023, 1024, default, format max -1/0/+1, 2^64-1, the declared window -1/0/+1} x position of the frame in the decoder's history {first, after a completed, a failed, a rejected frame} x 8 front ends (reset, init, decode_all, decode_all_to_vec, decode_from_to, StreamingDecoder::new / new_with_max_window_size / new_with_decoder): 77k cases, the whole space in both tiers. Accept <=> window <= min(limit, format maximum); a rejection must carry requested == declared window and max == effective limit, and the counting allocator must not have seen a single request >= 64 KiB before it; set_max_window_size must clamp. An accepted window above 64 MiB on the reuse path has its window-sized allocation refused by the harness and is recorded as accepted.",
   note="The allocation threshold (64 KiB) is far below any window that can be rejected at the default limit and far above the decoder's fixed scratch allocations.",
   design="3/C11")

CHECKS["C18"] = dict(level="exploration", engine="sweep",
   technique="all four feature configurations built and run on an identical enumerated case file, cross-build equality; the no_std I/O shims explored as a closed system against std::io",
   text="The configuration space has exactly four points ({std, no_std} x {hash, no hash}); one driver is built against each and fed the same case file: every string over {a,b} up to length 10/13 and inputs at the length / literal-count thresholds (compressed at both levels), up to 40/200 frames of the repository's decode corpus plus halves of them, 120/400 seed frames with six truncations each, a frame+skippable+frame input (decoded through decode_all_to_vec and through the streaming reader). All four decoder outcomes (digest and length of the bytes, or the error variant) must be equal; compressor output must be byte-identical between std and no_std, and the hash-off output must equal the hash-on output with descriptor bit 2 cleared and the last four bytes removed - nothing else. Inside every build the crate's Read/read_exact/take/read_to_end/Write/write_all run as a closed system against std::io as the reference model: every (slice length 0..=4, buffer length 0..=4, limit 0..=5, program of <= 3 operations) = 56k programs.",
   note="Error messages are not compared (they legitimately differ), only variants; a driver that does not finish within 300 s is reported as a hang.",
   design="3/C18")

CHECKS["C19"] = dict(level="exploration", engine="sweep",
   technique="complete enumeration of the command-line option matrix through the real binary in fresh directories, libzstd as reference decoder",
   text="The built ruzstd-cli binary is run in fresh directories under /verif/.work: level option {absent, 0, 1, 2, 3, 4, 5, 255, 256, 'x'} (long flag; short flag on two contents) x output path {explicit, defaulted} x 9/12 file contents (empty, 1 byte, text, one block -1/0/+1, incompressible 300 KB, RLE, binary with NULs and newlines; thorough adds 3 MB text, 1 MB skewed, exactly two blocks). Every produced .zst is decoded by libzstd and by the tool's decompress command with an explicit target and with the defaulted target run from another directory. Implemented levels and no level: exit 0 and a byte-identical restored file. Operations that cannot be carried out (unimplemented / unknown / unparsable levels, garbage or missing input): non-zero exit status, and no panic that leaves an output file behind.",
   note="A clean error exit that leaves a partial file would be accepted; the property forbids the panic-plus-plausible-output combination and success statuses for failed operations.",
   design="3/C19")
CHECKS["C20"] = dict(level="exploration", engine="sweep",
   technique="complete product of (source length, size estimate, dictionary size, content, reader) with owned randomness, in watchdog'ed worker processes",
   text="create_raw_dict_from_source with fastrand seeded from VERIF_SEED (each case under two seeds; verdicts must agree): true source length every value 0..=300 and {1000, 2047, 2048, 2049, 4096, 10000; thorough +30000, 100000} x size estimate {0, 15, 16, 17, 31, 32, len/2, len, 2*len, 10^6, 2^32, 2^32+2048} x dictionary size {0, 1, 15, 16, 17, 64, 2047, 2048, 2049, 4096, 10^6} x content {constant, ramp, period 16, period 17, text} x reader {whole slice, 1 byte per read, 100 bytes per read}: 500k cases. Oracle: the call returns (300 s watchdog in a worker process with an 8 GiB address-space limit), does not panic, and output.len() <= dict_size.",
   note="'Bounded time' is a watchdog, not a complexity proof: the builder's segment scoring is quadratic in the sample, so 4 GiB / 10^6 estimates are only combined with a few source lengths.",
   design="3/C20")

NOT_YET = {}

def main():
    props = [json.loads(l) for l in open(os.path.join(VERIF, "properties.jsonl"))]
    hooks_commits = subprocess.run("git -C /repo log --format=%H --grep='^verif hooks'", shell=True, capture_output=True, text=True).stdout.split()
    checks = []
    for p in props:
        c = CHECKS.get(p["id"])
        if not c: continue
        checks.append({
            "property_id": p["id"],
            "quick_cmd": f"./check {p['id']} --tier quick",
            "thorough_cmd": f"./check {p['id']} --tier thorough",
            "evidence_file": f"/verif/evidence/{p['id']}.json",
            "replay_cmd_template": f"./check {p['id']} --replay {{path}}",
            "engine": c["engine"],
            "level_claimed": {"category": c["level"], "text": c["text"], "design_ref": c["design"]},
            "level_note": c["note"],
            "technique": c["technique"],
        })
    na = [{"property_id": p["id"], "reason": NOT_YET.get(p["id"], "check not built yet in this revision of /verif (planned, see DESIGN.md section 3); not claimed")} for p in props if p["id"] not in CHECKS]
    m = {
        "version": 1,
        "setup_cmd": "python3 tools/setup.py",
        "hooks": {
            "guard": "--cfg zstd_rs_verif (rustc cfg; never set by the repository's own builds)",
            "enable": "RUSTFLAGS=\"--cfg zstd_rs_verif\" cargo build --release --offline -p zv (in /verif/harness, path dependency on /repo/ruzstd; done by ./check and tools/setup.py)",
            "baseline_off_cmd": "cd /repo && cargo test --workspace --no-fail-fast --offline",
            "source_commits": hooks_commits,
            "add_only": True,
        },
        "engines": [
            {"name": "xplore", "path": "harness/zv/src/xplore.rs", "serves_properties": ["C04", "C06", "C07", "C08", "C17"], "kind_free_text": "history-replay explicit-state BFS over the real implementation with canonical keys, replay determinism check, parallel per level"},
            {"name": "sweep", "path": "harness/zv/src", "serves_properties": ["C01", "C02", "C03", "C05", "C09", "C10", "C11", "C12", "C13", "C14", "C15", "C16", "C18", "C19", "C20"], "kind_free_text": "complete enumeration of bounded input / fault / configuration spaces through the real entry points against independent oracles (zmodel, libzstd)"},
            {"name": "zmodel", "path": "harness/zmodel", "serves_properties": ["C01", "C03", "C05", "C06", "C07", "C08", "C09", "C10", "C15"], "kind_free_text": "RFC 8878 format model (spec encoder, executor, strict walker, XXH64) bound to libzstd 1.5.7 on every run"},
            {"name": "meter", "path": "harness/zv/src/meter.rs", "serves_properties": ["C03", "C04", "C05", "C11"], "kind_free_text": "counting / refusing / guard-zone global allocator, panic capture"},
        ],
        "checks": checks,
        "not_applicable": na,
        "notes": "All checks: ./check <id> --tier quick|thorough rebuilds harness/zv against /repo's working tree with --cfg zstd_rs_verif, runs the exhaustive exploration, writes evidence/<id>.json, exits 0 / 1 (+VIOLATION line) / 2 (machinery failure). Known findings: known_findings.json.",
    }
    out = os.path.join(VERIF, "MANIFEST.json")
    json.dump(m, open(out, "w"), indent=1)
    open(out, "a").write("\n")
    try:
        import jsonschema
        jsonschema.validate(m, json.load(open("/root/.vp/MANIFEST.schema.json")))
        print("MANIFEST.json valid;", len(checks), "checks,", len(na), "not claimed")
    except ImportError:
        print("jsonschema not importable here; run with python3-vt to validate")

if __name__ == "__main__":
    main()
