#!/usr/bin/env python3
"""MANIFEST.setup_cmd: build everything the checks need, offline, from files on disk."""
import os, sys
sys.path.insert(0, os.path.dirname(os.path.abspath(__file__)))
import build
try:
    print("built", build.build_zv())
    print("built", build.build_featdrv())
    print("built", build.build_cli())
except build.BuildError as e:
    print(e); sys.exit(1)
