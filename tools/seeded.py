#!/usr/bin/env python3
"""seeded.py <Cnn> <name> <worktree> <checks,comma> "<what it needs to manifest>" : confirm an independently seeded
change in its scratch worktree (suite green with it, demo fails with it and passes without), store it as
/verif/seeded/<Cnn>-<name>/{patch.diff, seeded_demo.rs, meta.json}, run the named quick checks against it in the
scratch copies of tools/mutants.py, and append the outcome to /verif/seeded/RESULTS.md."""
import json, os, re, shutil, subprocess, sys, time
VERIF = os.path.dirname(os.path.dirname(os.path.abspath(__file__)))

def sh(cmd, cwd=None, env=None, timeout=3600):
    r = subprocess.run(cmd, cwd=cwd, shell=True, stdout=subprocess.PIPE, stderr=subprocess.STDOUT, text=True, env=env, timeout=timeout)
    return r.returncode, r.stdout

def results(out):
    return [l for l in out.splitlines() if l.startswith("test result")]

def main():
    pid, name, wt, checks, needs = sys.argv[1:6]
    demo_cmd = sys.argv[6] if len(sys.argv) > 6 else "cargo test -p ruzstd --test seeded_demo --offline"
    demo_rel = sys.argv[7] if len(sys.argv) > 7 else "ruzstd/tests/seeded_demo.rs"
    env = dict(os.environ, CARGO_TARGET_DIR=os.path.join(wt, "target"), CARGO_NET_OFFLINE="true")
    demo = os.path.join(wt, demo_rel)
    patch = os.path.join(wt, "patch.diff")
    assert os.path.exists(demo) and os.path.exists(patch), "demo or patch missing"
    ran = []
    # make sure the worktree holds exactly the patch (plus the demo)
    sh("git checkout -- ruzstd/src cli/src && git apply --whitespace=nowarn patch.diff", cwd=wt)
    aside = f"/tmp/_demo_aside_{os.getpid()}.rs"
    shutil.move(demo, aside)
    rc, out = sh("cargo test --workspace --no-fail-fast --offline 2>&1", cwd=wt, env=env)
    shutil.move(aside, demo)
    suite = results(out)
    suite_green = bool(suite) and all(" 0 failed" in l for l in suite) and rc == 0
    ran.append({"cmd": "cargo test --workspace --no-fail-fast --offline  (with the change, demo set aside)", "result": suite})
    rc, out = sh(demo_cmd + " 2>&1", cwd=wt, env=env)
    with_change = results(out)
    demo_fails = rc != 0 and any("FAILED" in l for l in with_change)
    ran.append({"cmd": demo_cmd + "  (with the change)", "result": with_change})
    sh("git checkout -- ruzstd/src cli/src", cwd=wt)
    rc, out = sh(demo_cmd + " 2>&1", cwd=wt, env=env)
    without = results(out)
    demo_passes = rc == 0 and bool(without) and all(" 0 failed" in l for l in without)
    ran.append({"cmd": demo_cmd + "  (without the change)", "result": without})
    sh("git apply --whitespace=nowarn patch.diff", cwd=wt)
    confirmed = suite_green and demo_fails and demo_passes
    print(f"confirmed={confirmed} suite_green={suite_green} demo_fails_with={demo_fails} demo_passes_without={demo_passes}")
    if not confirmed:
        print(json.dumps(ran, indent=1)); return 1
    d = os.path.join(VERIF, "seeded", f"{pid}-{name}")
    os.makedirs(d, exist_ok=True)
    shutil.copy(patch, os.path.join(d, "patch.diff"))
    shutil.copy(demo, os.path.join(d, "seeded_demo.rs"))
    # run my checks against it (scratch copies, never /repo)
    tmp = f"/tmp/seedpatches/{checks.replace(',', '_')}-seeded-{name}.patch"
    os.makedirs("/tmp/seedpatches", exist_ok=True)
    shutil.copy(patch, tmp)
    root = os.environ.get("SEED_ROOT", "/tmp/vmut")
    rc, out = sh(f"{VERIF}/tools/mutants.py --no-suite --root {root} --checks {checks} {tmp}", timeout=7200)
    line = [l for l in out.splitlines() if l.startswith("(")]
    verdict = "CAUGHT" if "'CAUGHT'" in out else "MISSED"
    detail = line[-1] if line else out[-400:]
    meta = {"property": pid, "name": name, "origin": "independent sub-agent given only the property text and a scratch worktree", "needs_to_manifest": needs, "confirmed": {"suite_green_with_change": suite_green, "demo_fails_with_change": demo_fails, "demo_passes_without_change": demo_passes}, "commands": ran, "checks_run": checks.split(","), "verdict": verdict, "detail": detail[:1500], "when": time.strftime("%Y-%m-%d %H:%M:%S")}
    json.dump(meta, open(os.path.join(d, "meta.json"), "w"), indent=1)
    with open(os.path.join(VERIF, "seeded", "RESULTS.md"), "a") as f:
        f.write(f"| {pid}-{name} | {needs} | {checks} | {verdict} | {detail[:300].replace('|','/')} |\n")
    print(verdict, detail[:600])
    return 0

if __name__ == "__main__":
    sys.exit(main())
