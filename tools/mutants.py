#!/usr/bin/env python3
"""Mutant runner: for each /verif/mutants/<prop>-<name>.patch (or the ones named on the command line)
apply it to /repo, run the repository's own suite (must stay green, otherwise the mutant proves nothing),
run the quick check(s) of the targeted property (must print VIOLATION), and restore /repo.
Results are appended to /verif/mutants/RESULTS.md.  Usage: tools/mutants.py [--no-suite] [--checks C04,C06] [patch ...]"""
import glob, os, subprocess, sys, time, re
VERIF = os.path.dirname(os.path.dirname(os.path.abspath(__file__)))
REPO = "/repo"

def sh(cmd, cwd=None, timeout=3600, env=None):
    r = subprocess.run(cmd, cwd=cwd, shell=isinstance(cmd, str), stdout=subprocess.PIPE, stderr=subprocess.STDOUT, text=True, timeout=timeout, env=env)
    return r.returncode, r.stdout

def clean_repo():
    rc, out = sh("git status --porcelain", cwd=REPO)
    return out.strip() == ""

def main():
    args = sys.argv[1:]
    suite = True
    checks_override = None
    patches = []
    i = 0
    while i < len(args):
        if args[i] == "--no-suite": suite = False
        elif args[i] == "--checks": i += 1; checks_override = args[i].split(",")
        else: patches.append(os.path.abspath(args[i]))
        i += 1
    if not patches:
        patches = sorted(glob.glob(os.path.join(VERIF, "mutants", "*.patch")))
    if not clean_repo():
        print("refusing to run: /repo has uncommitted changes"); return 2
    rows = []
    for p in patches:
        name = os.path.basename(p)[:-6]
        m = re.match(r"(C\d+(?:_C\d+)*)-", name)
        props = checks_override or (m.group(1).split("_") if m else [])
        rc, out = sh(["git", "apply", "--whitespace=nowarn", p], cwd=REPO)
        if rc != 0:
            rows.append((name, "patch does not apply", "", "")); print(name, "does not apply:", out); continue
        try:
            suite_res = "skipped"
            if suite:
                t0 = time.time()
                rc, out = sh("cargo test --workspace --no-fail-fast --offline 2>&1 | grep -E '^test result|FAILED|panicked' | head -20", cwd=REPO)
                failed = re.search(r"(\d+) failed", out) and any(int(x) > 0 for x in re.findall(r"(\d+) failed", out))
                ok = ("test result" in out) and not failed
                suite_res = f"green ({time.time()-t0:.0f}s)" if ok else "RED (caught by the repository's tests)"
            det = []
            for prop in props:
                t0 = time.time()
                rc, out = sh([os.path.join(VERIF, "check"), prop, "--tier", "quick"], cwd=VERIF)
                viol = [l for l in out.splitlines() if l.startswith("VIOLATION")]
                what = [l.strip() for l in out.splitlines() if l.strip().startswith("what:")]
                det.append((prop, rc, len(viol), time.time() - t0, what[0][:160] if what else ""))
            caught = any(rc == 1 and n > 0 for _, rc, n, _, _ in det)
            rows.append((name, suite_res, "CAUGHT" if caught else "MISSED", "; ".join(f"{p}: exit {rc}, {n} violation(s), {t:.0f}s {w}" for p, rc, n, t, w in det)))
            print(rows[-1], flush=True)
        finally:
            sh("git checkout -- . && git clean -fdq -- ruzstd cli", cwd=REPO)
    with open(os.path.join(VERIF, "mutants", "RESULTS.md"), "a") as f:
        f.write(f"\n## run {time.strftime('%Y-%m-%d %H:%M:%S')}\n\n| mutant | repository suite | verdict | checks |\n|---|---|---|---|\n")
        for r in rows:
            f.write("| " + " | ".join(r) + " |\n")
    return 0

if __name__ == "__main__":
    sys.exit(main())
