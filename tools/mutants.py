#!/usr/bin/env python3
"""Mutant runner. Works on scratch copies of /repo and /verif (default /tmp/vmut) so that it can run in the
background without disturbing /repo: for each mutants/<props>-<name>.patch it applies the patch to the scratch
repository, runs the repository's own suite there (must stay green, otherwise the mutant proves nothing), runs
the quick check(s) of the targeted properties (must print VIOLATION), and reverts. Results are appended to
/verif/mutants/RESULTS.md.   Usage: tools/mutants.py [--no-suite] [--checks C04,C06] [--root DIR] [patch ...]"""
import glob, os, subprocess, sys, time, re, shutil
VERIF = os.path.dirname(os.path.dirname(os.path.abspath(__file__)))

def sh(cmd, cwd=None, timeout=7200, env=None):
    r = subprocess.run(cmd, cwd=cwd, shell=isinstance(cmd, str), stdout=subprocess.PIPE, stderr=subprocess.STDOUT, text=True, timeout=timeout, env=env)
    return r.returncode, r.stdout

def prepare(root):
    os.makedirs(root, exist_ok=True)
    repo, verif = os.path.join(root, "repo"), os.path.join(root, "verif")
    sh(f"rsync -a --delete --exclude target --exclude .git /repo/ {repo}/")
    sh(f"cd {repo} && (test -d .git || (git init -q && git add -A && git -c user.email=a@b -c user.name=m commit -qm base)) && git add -A && git -c user.email=a@b -c user.name=m commit -qm sync --allow-empty")
    sh(f"rsync -a --delete --exclude .target --exclude .work --exclude .git --exclude evidence --exclude replays /verif/ {verif}/")
    # point the scratch harness at the scratch repository and its own target directory
    for f in ["harness/zv/Cargo.toml", "harness/.cargo/config.toml", "featdrv/Cargo.toml", "featdrv/.cargo/config.toml"]:
        p = os.path.join(verif, f)
        if os.path.exists(p):
            s = open(p).read().replace('"/repo/', f'"{repo}/').replace("/verif/.target", f"{verif}/.target")
            open(p, "w").write(s)
    return repo, verif

def main():
    args = sys.argv[1:]
    suite, checks_override, patches, root, tier = True, None, [], "/tmp/vmut", "quick"
    i = 0
    while i < len(args):
        if args[i] == "--no-suite": suite = False
        elif args[i] == "--checks": i += 1; checks_override = args[i].split(",")
        elif args[i] == "--root": i += 1; root = args[i]
        elif args[i] == "--tier": i += 1; tier = args[i]
        else: patches.append(os.path.abspath(args[i]))
        i += 1
    if not patches:
        patches = sorted(glob.glob(os.path.join(VERIF, "mutants", "*.patch")))
    repo, verif = prepare(root)
    env = dict(os.environ, VERIF_REPO=repo, VERIF_DIR=verif)
    rows = []
    for p in patches:
        name = os.path.basename(p)[:-6]
        m = re.match(r"((?:C\d+_?)+)-", name)
        props = checks_override or (m.group(1).strip("_").split("_") if m else [])
        rc, out = sh(["git", "apply", "--whitespace=nowarn", p], cwd=repo)
        if rc != 0:
            rows.append((name, "patch does not apply", "", out.strip()[:200])); print(rows[-1], flush=True); continue
        try:
            suite_res = "skipped"
            if suite:
                t0 = time.time()
                rc, out = sh("cargo test --workspace --no-fail-fast --offline 2>&1 | grep -E '^test result|FAILED|panicked|^error' | head -20", cwd=repo, env=env)
                failed = any(int(x) > 0 for x in re.findall(r"(\d+) failed", out)) or "error" in out
                ok = ("test result" in out) and not failed
                suite_res = f"green ({time.time()-t0:.0f}s)" if ok else "RED (caught by the repository's own tests)"
            det = []
            for prop in props:
                t0 = time.time()
                rc, out = sh([os.path.join(verif, "check"), prop, "--tier", tier], cwd=verif, env=env)
                viol = [l for l in out.splitlines() if l.startswith("VIOLATION")]
                what = [l.strip() for l in out.splitlines() if l.strip().startswith("what:")]
                extra = "" if rc in (0, 1) else " " + " | ".join(out.strip().splitlines()[-3:])[:300]
                det.append((prop, rc, len(viol), time.time() - t0, (what[0][:200] if what else "") + extra))
            caught = any(rc == 1 and n > 0 for _, rc, n, _, _ in det)
            rows.append((name, suite_res, "CAUGHT" if caught else "MISSED", "; ".join(f"{p}: exit {rc}, {n} violation(s), {t:.0f}s {w}" for p, rc, n, t, w in det)))
            print(rows[-1], flush=True)
        finally:
            sh("git checkout -- . && git clean -fdq", cwd=repo)
    with open(os.path.join(VERIF, "mutants", "RESULTS.md"), "a") as f:
        f.write(f"\n## run {time.strftime('%Y-%m-%d %H:%M:%S')} (tier {tier})\n\n| mutant | repository suite | verdict | checks |\n|---|---|---|---|\n")
        for r in rows:
            f.write("| " + " | ".join(x.replace("|", "/") for x in r) + " |\n")
    return 0

if __name__ == "__main__":
    sys.exit(main())
