//! C18 driver: built four times ({std, no_std} x {hash, no hash} of ruzstd). Reads a case file, prints one line
//! per case with digests of the compressor's output and of the decoder's output (or an error class).
//! The binary itself uses std; only the ruzstd it links is built with the feature set under test.
use ruzstd::decoding::{FrameDecoder, StreamingDecoder};
use ruzstd::encoding::{compress_to_vec, CompressionLevel};
use ruzstd::io::{Read as RRead, Write as RWrite};
use std::panic::{catch_unwind, AssertUnwindSafe};

fn fnv(d: &[u8]) -> u64 {
    let mut h = 0xcbf29ce484222325u64;
    for b in d {
        h ^= *b as u64;
        h = h.wrapping_mul(0x100000001b3);
    }
    h
}
fn unhex(s: &str) -> Vec<u8> {
    (0..s.len() / 2).map(|i| u8::from_str_radix(&s[2 * i..2 * i + 2], 16).unwrap()).collect()
}
fn variant(e: &dyn std::fmt::Debug) -> String {
    // the error's variant path only: messages and payload formatting legitimately differ between the I/O layers
    let s = format!("{e:?}");
    let mut out = String::new();
    for c in s.chars() {
        if c.is_alphanumeric() || c == '(' || c == '_' {
            out.push(c);
        } else {
            break;
        }
    }
    out
}

/// one frame as "raw_digest/len:normalised_digest/len" (or a marker)
fn frame_part(out: &[u8]) -> String {
    let mut norm = out.to_vec();
    let flagged = norm.len() > 4 && norm[4] & 4 != 0;
    if cfg!(feature = "hash") {
        if !flagged || norm.len() < 4 {
            return "hash-build-without-checksum-flag".into();
        }
        norm[4] &= !4;
        norm.truncate(norm.len() - 4);
    } else if flagged {
        return "nohash-build-with-checksum-flag".into();
    }
    format!("{:016x}/{}:{:016x}/{}", fnv(out), out.len(), fnv(&norm), norm.len())
}

/// a history of inputs through ONE FrameCompressor at level Fastest: one part per frame
fn reuse_case(inputs: &[Vec<u8>], seq: &[u8]) -> String {
    catch_unwind(AssertUnwindSafe(|| {
        let mut c: ruzstd::encoding::FrameCompressor<&[u8], Vec<u8>, _> = ruzstd::encoding::FrameCompressor::new(CompressionLevel::Fastest);
        let mut parts = vec![];
        for i in seq {
            c.set_source(inputs[*i as usize].as_slice());
            c.set_drain(Vec::new());
            c.compress();
            parts.push(frame_part(&c.take_drain().unwrap()));
        }
        parts.join(" ")
    }))
    .unwrap_or_else(|_| "panic".into())
}

fn compress_case(data: &[u8]) -> String {
    let mut parts = vec![];
    for level in [CompressionLevel::Uncompressed, CompressionLevel::Fastest] {
        match catch_unwind(AssertUnwindSafe(|| compress_to_vec(data, level))) {
            Err(_) => parts.push("panic".to_string()),
            Ok(out) => {
                // normalised form: checksum flag cleared and trailer removed when hashing is compiled in
                let mut norm = out.clone();
                let flagged = norm.len() > 4 && norm[4] & 4 != 0;
                if cfg!(feature = "hash") {
                    if !flagged || norm.len() < 4 {
                        parts.push("hash-build-without-checksum-flag".into());
                        continue;
                    }
                    norm[4] &= !4;
                    norm.truncate(norm.len() - 4);
                } else if flagged {
                    parts.push("nohash-build-with-checksum-flag".into());
                    continue;
                }
                parts.push(format!("{:016x}/{}:{:016x}/{}", fnv(&out), out.len(), fnv(&norm), norm.len()));
            }
        }
    }
    parts.join(" ")
}

fn decode_case(frame: &[u8]) -> String {
    let a = catch_unwind(AssertUnwindSafe(|| {
        let mut d = FrameDecoder::new();
        let mut out = Vec::with_capacity(1 << 20);
        match d.decode_all_to_vec(frame, &mut out) {
            Ok(()) => {
                // the stored checksum is reported by every build; a build with hashing must also have calculated
                // the same value (decode_all_to_vec decodes the last frame of the input completely)
                let stored = d.get_checksum_from_data();
                #[cfg(feature = "hash")]
                let calc_differs = stored.is_some() && d.get_calculated_checksum() != stored;
                #[cfg(not(feature = "hash"))]
                let calc_differs = false;
                format!("ok:{:016x}/{}/stored={:?}{}", fnv(&out), out.len(), stored, if calc_differs { "/CALCULATED-CHECKSUM-DIFFERS" } else { "" })
            }
            Err(e) => format!("err:{}:{}", variant(&e), out.len()),
        }
    }))
    .unwrap_or_else(|_| "panic".into());
    let b = catch_unwind(AssertUnwindSafe(|| {
        let mut src: &[u8] = frame;
        let mut sd = match StreamingDecoder::new(&mut src) {
            Ok(s) => s,
            Err(e) => return format!("err:{}", variant(&e)),
        };
        let mut out = vec![];
        let mut buf = [0u8; 333];
        loop {
            match RRead::read(&mut sd, &mut buf) {
                Ok(0) => return format!("ok:{:016x}/{}", fnv(&out), out.len()),
                Ok(n) => out.extend_from_slice(&buf[..n]),
                Err(_) => return format!("err:io:{:016x}/{}", fnv(&out), out.len()),
            }
            if out.len() > 1 << 22 {
                return "limit".into();
            }
        }
    }))
    .unwrap_or_else(|_| "panic".into());
    format!("{a} {b}")
}

/// the crate's Read / Write / Take against std::io as reference model, every small configuration
fn shim_closed_system() -> String {
    use std::io::{Read as SRead, Write as SWrite};
    let mut cases = 0u64;
    let mut mismatches = vec![];
    // op codes: 0 read(buf), 1 read_exact(buf), 2 take(limit).read(buf), 3 write(data) into a slice, 4 write_all(data) into a slice
    for slen in 0..=4usize {
        let data: Vec<u8> = (0..slen).map(|i| 10 + i as u8).collect();
        for blen in 0..=4usize {
            for limit in 0..=5u64 {
                for prog in 0..125u32 {
                    let ops = [prog % 5, (prog / 5) % 5, (prog / 25) % 5];
                    for n_ops in 1..=3 {
                        cases += 1;
                        let mut r_src: &[u8] = &data;
                        let mut s_src: &[u8] = &data;
                        let mut r_tgt = vec![0u8; slen];
                        let mut s_tgt = vec![0u8; slen];
                        let (mut r_w, mut s_w): (&mut [u8], &mut [u8]) = (&mut r_tgt, &mut s_tgt);
                        for (k, op) in ops.iter().take(n_ops).enumerate() {
                            let mut rb = vec![0u8; blen];
                            let mut sb = vec![0u8; blen];
                            let payload: Vec<u8> = (0..blen).map(|i| 100 + i as u8).collect();
                            let (r, s): (Result<usize, ()>, Result<usize, ()>) = match op {
                                0 => (RRead::read(&mut r_src, &mut rb).map_err(|_| ()), SRead::read(&mut s_src, &mut sb).map_err(|_| ())),
                                1 => (RRead::read_exact(&mut r_src, &mut rb).map(|_| blen).map_err(|_| ()), SRead::read_exact(&mut s_src, &mut sb).map(|_| blen).map_err(|_| ())),
                                2 => {
                                    let mut rt = RRead::take(&mut r_src, limit);
                                    let mut st = SRead::take(&mut s_src, limit);
                                    let r = (RRead::read(&mut rt, &mut rb).map_err(|_| ()), SRead::read(&mut st, &mut sb).map_err(|_| ()));
                                    if rt.limit() != st.limit() {
                                        mismatches.push(format!("take limit after read: slice {slen} buf {blen} limit {limit}: {} vs {}", rt.limit(), st.limit()));
                                    }
                                    r
                                }
                                3 => (RWrite::write(&mut r_w, &payload).map_err(|_| ()), SWrite::write(&mut s_w, &payload).map_err(|_| ())),
                                _ => (RWrite::write_all(&mut r_w, &payload).map(|_| blen).map_err(|_| ()), SWrite::write_all(&mut s_w, &payload).map(|_| blen).map_err(|_| ())),
                            };
                            let same = r == s && (r.is_err() || (rb[..r.unwrap_or(0).min(blen)] == sb[..s.unwrap_or(0).min(blen)])) && (r.is_err() || (r_src.len() == s_src.len() && r_w.len() == s_w.len()));
                            if !same && mismatches.len() < 5 {
                                mismatches.push(format!("slice {slen} buffer {blen} limit {limit} ops {:?} step {k}: crate {:?} (left {}, sink left {}) vs std {:?} (left {}, sink left {})", &ops[..n_ops], r, r_src.len(), r_w.len(), s, s_src.len(), s_w.len()));
                            }
                            if r.is_err() || s.is_err() {
                                break; // after an error the remaining state is unspecified
                            }
                        }
                        let used = slen - r_w.len().min(slen);
                        let _ = used;
                    }
                }
            }
        }
        let mut a = vec![];
        let mut b = vec![];
        let _ = RRead::read_to_end(&mut &data[..], &mut a);
        let _ = std::io::Read::read_to_end(&mut &data[..], &mut b);
        if a != b {
            mismatches.push(format!("read_to_end differs for {slen} bytes"));
        }
    }
    format!("shim cases={cases} mismatches={} {}", mismatches.len(), mismatches.join(" | "))
}

/// a reader that hands out at most k bytes per call, once for the crate's trait and once for std's (two types:
/// in a std build both traits are the same one)
struct ChunkR<'a> {
    data: &'a [u8],
    k: usize,
    /// (call number, 0 = Interrupted / 1 = Other): the call with that number fails once
    fault: Option<(usize, u8)>,
    calls: usize,
}
impl RRead for ChunkR<'_> {
    fn read(&mut self, buf: &mut [u8]) -> Result<usize, ruzstd::io::Error> {
        self.calls += 1;
        if let Some((at, kind)) = self.fault {
            if at + 1 == self.calls {
                return Err(ruzstd::io::Error::from(if kind == 0 { ruzstd::io::ErrorKind::Interrupted } else { ruzstd::io::ErrorKind::Other }));
            }
        }
        let n = buf.len().min(self.k).min(self.data.len());
        buf[..n].copy_from_slice(&self.data[..n]);
        self.data = &self.data[n..];
        Ok(n)
    }
}
struct ChunkS<'a> {
    data: &'a [u8],
    k: usize,
    fault: Option<(usize, u8)>,
    calls: usize,
}
impl std::io::Read for ChunkS<'_> {
    fn read(&mut self, buf: &mut [u8]) -> std::io::Result<usize> {
        self.calls += 1;
        if let Some((at, kind)) = self.fault {
            if at + 1 == self.calls {
                return Err(std::io::Error::from(if kind == 0 { std::io::ErrorKind::Interrupted } else { std::io::ErrorKind::Other }));
            }
        }
        let n = buf.len().min(self.k).min(self.data.len());
        buf[..n].copy_from_slice(&self.data[..n]);
        self.data = &self.data[n..];
        Ok(n)
    }
}

/// the provided methods of the crate's Read (read_exact, read_to_end, take) over a source that returns short
/// reads, against std::io: every (source length 0..=6, chunk 1..=3, buffer 0..=4, limit 0..=7, program of <= 3
/// operations over {read, read_exact, take(limit).read, take(limit).read_to_end, read_to_end})
fn shim_chunked_system() -> String {
    use std::io::Read as SRead;
    let mut cases = 0u64;
    let mut mismatches: Vec<String> = vec![];
    for slen in 0..=6usize {
        let data: Vec<u8> = (0..slen).map(|i| 10 + i as u8).collect();
        for k in 1..=3usize {
            for blen in 0..=4usize {
                for limit in 0..=7u64 {
                    for prog in 0..125u32 {
                        let ops = [prog % 5, (prog / 5) % 5, (prog / 25) % 5];
                        for n_ops in 1..=3 {
                          // transient / hard failure of one read call (read, read_exact and take(..).read only:
                          // what read_to_end does on Interrupted is not something the library relies on)
                          for fault in [None, Some((0usize, 0u8)), Some((1, 0)), Some((2, 0)), Some((0, 1)), Some((1, 1)), Some((2, 1))] {
                            if fault.is_some() && (limit > 2 || ops[..n_ops].iter().any(|o| *o >= 3)) {
                                continue;
                            }
                            cases += 1;
                            let mut r = ChunkR { data: &data, k, fault, calls: 0 };
                            let mut s = ChunkS { data: &data, k, fault, calls: 0 };
                            for (step, op) in ops.iter().take(n_ops).enumerate() {
                                let mut rb = vec![0u8; blen];
                                let mut sb = vec![0u8; blen];
                                let (mut rv, mut sv) = (vec![], vec![]);
                                let (x, y): (Result<usize, ()>, Result<usize, ()>) = match op {
                                    0 => (RRead::read(&mut r, &mut rb).map_err(|_| ()), SRead::read(&mut s, &mut sb).map_err(|_| ())),
                                    1 => (RRead::read_exact(&mut r, &mut rb).map(|_| blen).map_err(|_| ()), SRead::read_exact(&mut s, &mut sb).map(|_| blen).map_err(|_| ())),
                                    2 => {
                                        let mut rt = RRead::take(&mut r, limit);
                                        let mut st = SRead::take(&mut s, limit);
                                        let res = (RRead::read(&mut rt, &mut rb).map_err(|_| ()), SRead::read(&mut st, &mut sb).map_err(|_| ()));
                                        if rt.limit() != st.limit() && mismatches.len() < 5 {
                                            mismatches.push(format!("take limit after a short read: source {slen} chunk {k} buffer {blen} limit {limit}: {} vs {}", rt.limit(), st.limit()));
                                        }
                                        res
                                    }
                                    3 => {
                                        let mut rt = RRead::take(&mut r, limit);
                                        let mut st = SRead::take(&mut s, limit);
                                        (RRead::read_to_end(&mut rt, &mut rv).map(|_| rv.len()).map_err(|_| ()), SRead::read_to_end(&mut st, &mut sv).map_err(|_| ()))
                                    }
                                    _ => (RRead::read_to_end(&mut r, &mut rv).map(|_| rv.len()).map_err(|_| ()), SRead::read_to_end(&mut s, &mut sv).map_err(|_| ())),
                                };
                                let same = x == y && (x.is_err() || (rb[..x.unwrap_or(0).min(blen)] == sb[..y.unwrap_or(0).min(blen)] && rv == sv && r.data.len() == s.data.len()));
                                if !same && mismatches.len() < 5 {
                                    mismatches.push(format!("source {slen} chunk {k} buffer {blen} limit {limit} fault {fault:?} ops {:?} step {step}: crate {:?} ({} collected, {} left) vs std {:?} ({} collected, {} left)", &ops[..n_ops], x, rv.len(), r.data.len(), y, sv.len(), s.data.len()));
                                }
                                if x.is_err() || y.is_err() {
                                    break;
                                }
                            }
                          }
                        }
                    }
                }
            }
        }
    }
    format!("cases={cases} mismatches={} {}", mismatches.len(), mismatches.join(" | "))
}

fn main() {
    std::panic::set_hook(Box::new(|_| {}));
    let path = std::env::args().nth(1).expect("case file");
    let text = std::fs::read_to_string(path).expect("read case file");
    println!("config std={} hash={}", cfg!(feature = "std"), cfg!(feature = "hash"));
    // both closed systems on one line; a panic inside the crate's I/O layer is an outcome, not a dead driver
    let shim = |f: fn() -> String| catch_unwind(AssertUnwindSafe(f)).unwrap_or_else(|p| format!("cases=0 mismatches=1 PANIC in the crate's I/O layer: {}", p.downcast_ref::<String>().cloned().or(p.downcast_ref::<&str>().map(|s| s.to_string())).unwrap_or_default()));
    println!("{} || chunked sources: {}", shim(shim_closed_system), shim(shim_chunked_system));
    // X = register a dictionary, F = define a frame, H = decode the frames with the listed indices one after the
    // other on ONE decoder that has every registered dictionary (state that survives a reset in one build only
    // shows up here)
    let mut dicts: Vec<Vec<u8>> = vec![];
    let mut frames: Vec<Vec<u8>> = vec![];
    let mut inputs: Vec<Vec<u8>> = vec![];
    for (i, line) in text.lines().enumerate() {
        let (kind, hex) = line.split_once(' ').unwrap_or((line, ""));
        let data = unhex(hex);
        match kind {
            "C" => println!("{i} C {}", compress_case(&data)),
            "D" => println!("{i} D {}", decode_case(&data)),
            "X" => {
                let ok = catch_unwind(AssertUnwindSafe(|| ruzstd::decoding::Dictionary::decode_dict(&data).is_ok())).unwrap_or(false);
                dicts.push(data);
                println!("{i} X {}", if ok { "ok" } else { "refused" });
            }
            "F" => {
                frames.push(data);
                println!("{i} F defined");
            }
            // I = define an input, R = compress the inputs with the listed indices through one compressor
            "I" => {
                inputs.push(data);
                println!("{i} I defined");
            }
            "R" => println!("{i} R {}", reuse_case(&inputs, &data)),
            "H" => {
                let out = catch_unwind(AssertUnwindSafe(|| {
                    let mut d = FrameDecoder::new();
                    for raw in &dicts {
                        if let Ok(dict) = ruzstd::decoding::Dictionary::decode_dict(raw) {
                            let _ = d.add_dict(dict);
                        }
                    }
                    let mut parts = vec![];
                    for idx in &data {
                        let frame = &frames[*idx as usize];
                        let mut out = Vec::with_capacity(1 << 20);
                        parts.push(match d.decode_all_to_vec(frame, &mut out) {
                            Ok(()) => format!("ok:{:016x}/{}/{:?}", fnv(&out), out.len(), d.get_checksum_from_data()),
                            Err(e) => format!("err:{}:{}", variant(&e), out.len()),
                        });
                    }
                    parts.join("|")
                }))
                .unwrap_or_else(|_| "panic".into());
                println!("{i} H {out}");
            }
            _ => {}
        }
    }
}
