//! FSE per RFC 8878 section 4.1: decoding table from a normalized distribution, the distribution's
//! serialized description (writer and strict parser), and an encoder that is the inverse of the decode table.
use crate::bits::{BackBits, FwdBits, FwdReader};

#[derive(Clone, Debug, PartialEq, Eq)]
pub struct Entry {
    pub sym: u8,
    pub nbits: u8,
    pub base: u16,
}

#[derive(Clone, Debug, PartialEq, Eq)]
pub struct Table {
    pub log: u8,
    pub dist: Vec<i16>,
    pub entries: Vec<Entry>,
}

pub fn dist_sum(dist: &[i16]) -> usize {
    dist.iter().map(|&p| if p == -1 { 1 } else { p.max(0) as usize }).sum()
}

/// Decoding table of a normalized distribution (probabilities -1, 0, 1..) that sums to 2^log.
pub fn build(dist: &[i16], log: u8) -> Table {
    let size = 1usize << log;
    assert_eq!(dist_sum(dist), size, "distribution must sum to the table size");
    assert!(dist.len() <= 256);
    let mut sym_of = vec![0u8; size];
    let mut high = size;
    for (s, &p) in dist.iter().enumerate() {
        if p == -1 {
            high -= 1;
            sym_of[high] = s as u8;
        }
    }
    let step = (size >> 1) + (size >> 3) + 3;
    let mask = size - 1;
    let mut pos = 0usize;
    for (s, &p) in dist.iter().enumerate() {
        if p <= 0 {
            continue;
        }
        for _ in 0..p {
            sym_of[pos] = s as u8;
            loop {
                pos = (pos + step) & mask;
                if pos < high {
                    break;
                }
            }
        }
    }
    assert_eq!(pos, 0, "spreading must end at position 0");
    let mut next: Vec<u32> = dist.iter().map(|&p| if p == -1 { 1 } else { p.max(0) as u32 }).collect();
    let mut entries = Vec::with_capacity(size);
    for &sym in sym_of.iter() {
        let s = sym as usize;
        if dist[s] == -1 {
            entries.push(Entry { sym, nbits: log, base: 0 });
            continue;
        }
        let x = next[s];
        next[s] += 1;
        let nbits = log as u32 - (31 - x.leading_zeros());
        let base = ((x << nbits) as usize - size) as u16;
        entries.push(Entry { sym, nbits: nbits as u8, base });
    }
    Table { log, dist: dist.to_vec(), entries }
}

/// Serialized table description (section 4.1.1), padded to a byte. Trailing zero-probability symbols are not
/// written.
pub fn describe(dist: &[i16], log: u8) -> Vec<u8> {
    let mut w = FwdBits::new();
    describe_into(dist, log, &mut w);
    w.finish()
}
pub fn describe_into(dist: &[i16], log: u8, w: &mut FwdBits) {
    assert!((5..=20).contains(&log));
    assert_eq!(dist_sum(dist), 1usize << log);
    w.put((log - 5) as u64, 4);
    let mut remaining: i32 = 1 << log;
    let mut i = 0;
    while remaining > 0 {
        let p = dist[i] as i32;
        i += 1;
        let max = remaining + 1; // values 0..=max
        let nb = 32 - (max as u32).leading_zeros(); // bits to hold max
        let thresh = (1i32 << nb) - 1 - max; // number of small values coded on nb-1 bits
        let v = p + 1;
        if v < thresh {
            w.put(v as u64, nb - 1);
        } else if v < (1 << (nb - 1)) {
            w.put(v as u64, nb);
        } else {
            w.put((v + thresh) as u64, nb);
        }
        remaining -= if p == -1 { 1 } else { p };
        if p == 0 {
            let mut zeros = 0;
            while dist[i] == 0 {
                zeros += 1;
                i += 1;
            }
            while zeros >= 3 {
                w.put(3, 2);
                zeros -= 3;
            }
            w.put(zeros as u64, 2);
        }
    }
    assert!(dist[i..].iter().all(|&p| p == 0), "only zero probabilities may follow the last described symbol");
}

#[derive(Debug, Clone, PartialEq, Eq)]
pub enum DescError {
    Truncated,
    LogTooBig(u8),
    TooManySymbols(usize),
}

/// Strict parser of a table description: (log, distribution without trailing zeros, bytes used).
pub fn parse_description(src: &[u8], max_log: u8, max_symbol: usize) -> Result<(u8, Vec<i16>, usize), DescError> {
    let mut r = FwdReader::new(src);
    let log = r.get(4).ok_or(DescError::Truncated)? as u8 + 5;
    if log > max_log {
        return Err(DescError::LogTooBig(log));
    }
    let mut remaining: i32 = 1 << log;
    let mut dist: Vec<i16> = vec![];
    while remaining > 0 {
        let max = remaining + 1;
        let nb = 32 - (max as u32).leading_zeros();
        let thresh = (1i32 << nb) - 1 - max;
        let low = r.get(nb - 1).ok_or(DescError::Truncated)? as i32;
        let v = if low < thresh {
            low
        } else {
            let hi = r.get(1).ok_or(DescError::Truncated)? as i32;
            let full = low | (hi << (nb - 1));
            if hi == 1 {
                full - thresh
            } else {
                full
            }
        };
        let p = v - 1;
        dist.push(p as i16);
        remaining -= if p == -1 { 1 } else { p };
        if p == 0 {
            loop {
                let k = r.get(2).ok_or(DescError::Truncated)? as usize;
                dist.extend(std::iter::repeat(0).take(k));
                if k != 3 {
                    break;
                }
            }
        }
        if dist.len() > 512 {
            return Err(DescError::TooManySymbols(dist.len()));
        }
    }
    if dist.len() > max_symbol + 1 {
        return Err(DescError::TooManySymbols(dist.len()));
    }
    Ok((log, dist, r.bytes_used()))
}

/// Encoder: inverse of the decode table.
pub struct Enc<'t> {
    pub t: &'t Table,
    by_sym: Vec<Vec<usize>>,
}
impl<'t> Enc<'t> {
    pub fn new(t: &'t Table) -> Self {
        let mut by_sym = vec![vec![]; 256];
        for (i, e) in t.entries.iter().enumerate() {
            by_sym[e.sym as usize].push(i);
        }
        Enc { t, by_sym }
    }
    pub fn has(&self, sym: u8) -> bool {
        !self.by_sym[sym as usize].is_empty()
    }
    pub fn states_of(&self, sym: u8) -> &[usize] {
        &self.by_sym[sym as usize]
    }
    /// a state decoding to `sym` (the one with the given ordinal among its states, modulo their number)
    pub fn state_for(&self, sym: u8, ordinal: usize) -> usize {
        let v = &self.by_sym[sym as usize];
        assert!(!v.is_empty(), "symbol {sym} has no state");
        v[ordinal % v.len()]
    }
    /// a state decoding to `sym` whose transition needs at least one bit, if there is one
    pub fn state_with_bits(&self, sym: u8) -> Option<usize> {
        self.by_sym[sym as usize].iter().copied().find(|&s| self.t.entries[s].nbits > 0)
    }
    /// the state `s` decoding to `sym` from which the decoder moves to `next`: (s, bits value, nbits)
    pub fn prev_state(&self, sym: u8, next: usize) -> (usize, u64, u32) {
        for &s in &self.by_sym[sym as usize] {
            let e = &self.t.entries[s];
            let lo = e.base as usize;
            let hi = lo + (1usize << e.nbits);
            if next >= lo && next < hi {
                return (s, (next - lo) as u64, e.nbits as u32);
            }
        }
        panic!("no state of symbol {sym} reaches {next}");
    }
}

/// A single-state FSE stream (state init, then one transition per symbol but the last).
pub fn encode_stream(t: &Table, syms: &[u8]) -> Vec<u8> {
    let enc = Enc::new(t);
    let n = syms.len();
    let mut states = vec![0usize; n];
    let mut trans = vec![(0u64, 0u32); n];
    states[n - 1] = enc.state_for(syms[n - 1], 0);
    for i in (0..n - 1).rev() {
        let (s, v, nb) = enc.prev_state(syms[i], states[i + 1]);
        states[i] = s;
        trans[i] = (v, nb);
    }
    let mut b = BackBits::new();
    b.push(states[0] as u64, t.log as u32);
    for tr in trans.iter().take(n - 1) {
        b.push(tr.0, tr.1);
    }
    b.finish()
}
