//! Huffman coding per RFC 8878 section 4.2: weights -> code lengths -> canonical codes / decode table;
//! weight descriptions (direct and FSE-compressed), writer and strict parser; stream encoder and decoder.
use crate::bits::{BackBits, BackReader};
use crate::fse;

/// weights of all symbols (including the last). (max_bits, nbits per symbol) or None if not a complete code
/// of depth <= 11.
pub fn lengths_from_weights(weights: &[u8]) -> Option<(u8, Vec<u8>)> {
    if weights.iter().any(|&w| w > 12) {
        return None;
    }
    let sum: u32 = weights.iter().map(|&w| if w > 0 { 1u32 << (w - 1) } else { 0 }).sum();
    if sum == 0 || !sum.is_power_of_two() {
        return None;
    }
    let max_bits = sum.trailing_zeros() as u8;
    if max_bits > 11 || max_bits == 0 {
        return None;
    }
    Some((max_bits, weights.iter().map(|&w| if w > 0 { max_bits + 1 - w } else { 0 }).collect()))
}

/// Given the weights of all symbols but the last, the implied last weight (completes the sum to the next
/// power of two), or None if the gap is not a power of two.
pub fn implied_last_weight(head: &[u8]) -> Option<u8> {
    if head.iter().any(|&w| w > 11) {
        return None;
    }
    let sum: u32 = head.iter().map(|&w| if w > 0 { 1u32 << (w - 1) } else { 0 }).sum();
    if sum == 0 {
        return None;
    }
    let next = (sum + 1).next_power_of_two();
    let left = next - sum;
    if !left.is_power_of_two() {
        return None;
    }
    Some(left.trailing_zeros() as u8 + 1)
}

/// Full weight vector (with implied last weight) of a description head, if it forms a valid table.
pub fn complete(head: &[u8]) -> Option<Vec<u8>> {
    if head.is_empty() || head.len() > 255 {
        return None;
    }
    let last = implied_last_weight(head)?;
    let mut w = head.to_vec();
    w.push(last);
    lengths_from_weights(&w)?;
    Some(w)
}

/// Canonical decode table: 2^max_bits entries of (symbol, nbits), filled in order of increasing weight, then
/// increasing symbol value.
pub fn decode_table(weights: &[u8]) -> Option<(u8, Vec<(u8, u8)>)> {
    let (max_bits, nb) = lengths_from_weights(weights)?;
    let mut t = Vec::with_capacity(1 << max_bits);
    for w in 1..=max_bits {
        for (s, &ws) in weights.iter().enumerate() {
            if ws == w {
                for _ in 0..(1u32 << (w - 1)) {
                    t.push((s as u8, nb[s]));
                }
            }
        }
    }
    assert_eq!(t.len(), 1 << max_bits);
    Some((max_bits, t))
}

/// Code (as read MSB-first) and length of each symbol.
pub fn codes(weights: &[u8]) -> Vec<(u16, u8)> {
    let (max_bits, t) = decode_table(weights).expect("complete code");
    let mut out = vec![(0u16, 0u8); weights.len()];
    let mut seen = vec![false; weights.len()];
    for (pos, &(s, n)) in t.iter().enumerate() {
        if !seen[s as usize] {
            seen[s as usize] = true;
            out[s as usize] = ((pos >> (max_bits - n)) as u16, n);
        }
    }
    out
}

pub fn encode_stream(cs: &[(u16, u8)], lits: &[u8]) -> Vec<u8> {
    let mut b = BackBits::new();
    for &l in lits {
        let (c, n) = cs[l as usize];
        assert!(n > 0, "literal {l} has no code");
        b.push(c as u64, n as u32);
    }
    b.finish()
}

/// Strict stream decoder: exactly `count` symbols, consuming exactly all bits.
pub fn decode_stream(weights: &[u8], src: &[u8], count: usize) -> Result<Vec<u8>, String> {
    let (max_bits, t) = decode_table(weights).ok_or("invalid weights")?;
    let mut r = BackReader::new(src).ok_or("huffman stream without end mark")?;
    let mut out = Vec::with_capacity(count);
    for _ in 0..count {
        let (s, n) = t[r.peek(max_bits as u32) as usize];
        r.get(n as u32);
        if r.pos < 0 {
            return Err("huffman stream too short for its literal count".into());
        }
        out.push(s);
    }
    if r.pos != 0 {
        return Err(format!("huffman stream has {} unused bits", r.pos));
    }
    Ok(out)
}

/// Direct description: header byte 127+n, then n weights as nibbles (first weight in the high nibble).
pub fn describe_direct(head: &[u8]) -> Vec<u8> {
    assert!(!head.is_empty() && head.len() <= 128);
    let mut v = vec![127 + head.len() as u8];
    for ch in head.chunks(2) {
        v.push((ch[0] << 4) | ch.get(1).copied().unwrap_or(0));
    }
    v
}

/// FSE-compressed description: header byte = size, FSE table description (log <= 6), two interleaved
/// states. None if the sequence cannot be terminated unambiguously with this table (the state of the
/// second-to-last weight must read at least one bit) or does not fit 127 bytes.
pub fn describe_fse(head: &[u8], dist: &[i16], log: u8) -> Option<Vec<u8>> {
    if head.len() < 2 {
        return None;
    }
    let t = fse::build(dist, log);
    let enc = fse::Enc::new(&t);
    if head.iter().any(|&w| !enc.has(w)) {
        return None;
    }
    let n = head.len();
    // symbols at even index come from state 1, odd from state 2; the last two symbols are peeked, and the
    // decoder notices the end when the update after symbol n-2 runs past the start of the stream
    let mut st = vec![0usize; n];
    let mut tr = vec![(0u64, 0u32); n];
    st[n - 1] = enc.state_for(head[n - 1], 0);
    st[n - 2] = enc.state_with_bits(head[n - 2])?;
    for i in (0..n - 2).rev() {
        let (s, v, nb) = enc.prev_state(head[i], st[i + 2]);
        st[i] = s;
        tr[i] = (v, nb);
    }
    let mut b = BackBits::new();
    b.push(st[0] as u64, log as u32);
    b.push(st[1] as u64, log as u32);
    for t in tr.iter().take(n - 2) {
        b.push(t.0, t.1);
    }
    let mut body = fse::describe(dist, log);
    body.extend(b.finish());
    if body.len() >= 128 {
        return None;
    }
    let mut v = vec![body.len() as u8];
    v.extend(body);
    Some(v)
}

/// Strict parser of a weight description: (weights without the implied one, bytes used).
pub fn parse_description(src: &[u8]) -> Result<(Vec<u8>, usize), String> {
    let h = *src.first().ok_or("empty huffman description")? as usize;
    if h >= 128 {
        let n = h - 127;
        let need = n.div_ceil(2);
        if src.len() < 1 + need {
            return Err("direct weights truncated".into());
        }
        let mut w = Vec::with_capacity(n);
        for i in 0..n {
            let b = src[1 + i / 2];
            w.push(if i % 2 == 0 { b >> 4 } else { b & 15 });
        }
        Ok((w, 1 + need))
    } else {
        if src.len() < 1 + h {
            return Err("fse weights truncated".into());
        }
        let body = &src[1..1 + h];
        let (log, dist, used) = fse::parse_description(body, 6, 255).map_err(|e| format!("weights fse table: {e:?}"))?;
        if used > h {
            return Err("fse table description longer than the weights field".into());
        }
        let t = fse::build(&dist, log);
        let mut r = BackReader::new(&body[used..]).ok_or("weights stream without end mark")?;
        let mut s1 = r.get(log as u32) as usize;
        let mut s2 = r.get(log as u32) as usize;
        if r.pos < 0 {
            return Err("weights stream shorter than two states".into());
        }
        let mut w = vec![];
        loop {
            let e = &t.entries[s1];
            w.push(e.sym);
            s1 = e.base as usize + r.get(e.nbits as u32) as usize;
            if r.pos < 0 {
                w.push(t.entries[s2].sym);
                break;
            }
            let e = &t.entries[s2];
            w.push(e.sym);
            s2 = e.base as usize + r.get(e.nbits as u32) as usize;
            if r.pos < 0 {
                w.push(t.entries[s1].sym);
                break;
            }
            if w.len() > 255 {
                return Err("more than 255 weights".into());
            }
        }
        if w.len() > 255 {
            return Err("more than 255 weights".into());
        }
        Ok((w, 1 + h))
    }
}
