//! Huffman per RFC 8878 section 4.2: weights -> code lengths -> canonical codes; descriptions; stream encoder.
use crate::bits::BackBits;
use crate::fse;

/// weights for symbols 0..n (all of them, including the last one). Returns (max_bits, nbits per symbol) or None if not a complete code.
pub fn lengths_from_weights(weights: &[u8]) -> Option<(u8, Vec<u8>)> {
    let sum: u32 = weights.iter().map(|&w| if w > 0 { 1u32 << (w - 1) } else { 0 }).sum();
    if sum == 0 || !sum.is_power_of_two() { return None; }
    let max_bits = sum.trailing_zeros() as u8; // sum == 2^max_bits
    if max_bits > 11 { return None; }
    Some((max_bits, weights.iter().map(|&w| if w > 0 { max_bits + 1 - w } else { 0 }).collect()))
}

/// Given the weights of all symbols but the last, the implied last weight (spec: completes to the next power of two)
pub fn implied_last_weight(head: &[u8]) -> Option<u8> {
    let sum: u32 = head.iter().map(|&w| if w > 0 { 1u32 << (w - 1) } else { 0 }).sum();
    if sum == 0 { return None; }
    let next = (sum + 1).next_power_of_two(); // strictly greater than sum
    let left = next - sum;
    if !left.is_power_of_two() { return None; }
    Some(left.trailing_zeros() as u8 + 1)
}

/// Canonical codes as the decoder sees them: value of the code when read MSB-first, for each symbol with nbits>0.
/// Spec: symbols sorted by (weight ascending, symbol ascending) receive increasing codes starting from 0 at the longest length.
pub fn codes(weights: &[u8]) -> Vec<(u16, u8)> {
    let (max_bits, nb) = lengths_from_weights(weights).expect("complete code");
    let mut out = vec![(0u16, 0u8); weights.len()];
    // decode table position approach: fill a 2^max_bits table in order weight 1.., symbol ascending; code = pos >> (max_bits - nbits)
    let mut pos: u32 = 0;
    for w in 1..=max_bits + 1 { for (s, &ws) in weights.iter().enumerate() { if ws == w { let nbits = nb[s]; let span = 1u32 << (max_bits - nbits); out[s] = ((pos >> (max_bits - nbits)) as u16, nbits); pos += span; } } }
    assert_eq!(pos, 1 << max_bits);
    out
}

pub fn encode_stream(cs: &[(u16, u8)], lits: &[u8]) -> Vec<u8> {
    let mut b = BackBits::new();
    // decoder reads symbols first to last? No: Huffman streams are decoded from the end of the bitstream yielding literals in order,
    // so the first literal's code is read first.
    for &l in lits { let (c, n) = cs[l as usize]; assert!(n > 0, "literal {l} has no code"); b.push(c as u64, n as u32); }
    b.finish()
}

/// Direct description: header byte 127+n, then n weights as nibbles (first weight in the high nibble)
pub fn describe_direct(head: &[u8]) -> Vec<u8> {
    assert!(!head.is_empty() && head.len() <= 128);
    let mut v = vec![127 + head.len() as u8];
    for ch in head.chunks(2) { v.push((ch[0] << 4) | ch.get(1).copied().unwrap_or(0)); }
    v
}

/// FSE-compressed description: header byte = size, FSE table description (log<=6), two interleaved states.
pub fn describe_fse(head: &[u8], dist: &[i16], log: u8) -> Vec<u8> {
    assert!(head.len() >= 2);
    let t = fse::build(dist, log); let enc = fse::Enc::new(&t);
    // decoder: state1 init, state2 init; loop: emit s1 sym, update s1; (stop if overflow -> emit s2); emit s2 sym, update s2; ...
    // symbols at even index come from state1, odd index from state2. Final two symbols are the states' symbols without update.
    let n = head.len();
    // per chain, compute states backwards
    let mut st = vec![0usize; n]; let mut tr = vec![(0u64, 0u32); n];
    for chain in 0..2 { let idxs: Vec<usize> = (chain..n).step_by(2).collect(); let last = *idxs.last().unwrap(); st[last] = enc.state_for(head[last], 0);
        for w in idxs.windows(2).rev() { let (s, v, nb) = enc.prev_state(head[w[0]], st[w[1]]); st[w[0]] = s; tr[w[0]] = (v, nb); } }
    let mut b = BackBits::new(); b.push(st[0] as u64, log as u32); b.push(st[1] as u64, log as u32);
    // updates happen in symbol order for all but the last two symbols
    for i in 0..n - 2 { b.push(tr[i].0, tr[i].1); }
    let mut body = fse::describe(dist, log); body.extend(b.finish());
    assert!(body.len() < 128);
    let mut v = vec![body.len() as u8]; v.extend(body); v
}
