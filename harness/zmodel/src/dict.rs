//! Zstandard dictionaries (RFC 8878 section 5): magic, id, Huffman table, OF / ML / LL tables, three repeat
//! offsets, content.
use crate::tables::*;
use crate::{fse, huf};

#[derive(Clone, Debug)]
pub struct Dict {
    pub id: u32,
    /// all weights including the implied last one
    pub huf_weights: Vec<u8>,
    pub of: fse::Table,
    pub ml: fse::Table,
    pub ll: fse::Table,
    pub rep: [u32; 3],
    pub content: Vec<u8>,
}

impl Dict {
    pub fn serialize(&self) -> Result<Vec<u8>, String> {
        let mut out = DICT_MAGIC.to_le_bytes().to_vec();
        out.extend(self.id.to_le_bytes());
        let head = &self.huf_weights[..self.huf_weights.len() - 1];
        if huf::complete(head).as_deref() != Some(&self.huf_weights[..]) {
            return Err("dictionary huffman weights are not a describable complete code".into());
        }
        if head.len() <= 128 {
            out.extend(huf::describe_direct(head));
        } else {
            return Err("dictionary huffman table needs FSE-compressed weights; use serialize_with".into());
        }
        out.extend(fse::describe(&self.of.dist, self.of.log));
        out.extend(fse::describe(&self.ml.dist, self.ml.log));
        out.extend(fse::describe(&self.ll.dist, self.ll.log));
        for r in self.rep {
            out.extend(r.to_le_bytes());
        }
        out.extend(&self.content);
        Ok(out)
    }

    /// Strict parser.
    pub fn parse(raw: &[u8]) -> Result<Dict, String> {
        if raw.len() < 8 || u32::from_le_bytes(raw[..4].try_into().unwrap()) != DICT_MAGIC {
            return Err("bad dictionary magic".into());
        }
        let id = u32::from_le_bytes(raw[4..8].try_into().unwrap());
        let mut p = 8;
        let (head, used) = huf::parse_description(&raw[p..])?;
        let huf_weights = huf::complete(&head).ok_or("dictionary huffman weights invalid")?;
        p += used;
        let mut tabs = vec![];
        for (max_log, max_sym) in [(OF_MAX_LOG, 31usize), (ML_MAX_LOG, 52), (LL_MAX_LOG, 35)] {
            let (log, dist, used) = fse::parse_description(&raw[p..], max_log, max_sym).map_err(|e| format!("{e:?}"))?;
            tabs.push(fse::build(&dist, log));
            p += used;
        }
        if raw.len() < p + 12 {
            return Err("dictionary truncated before the repeat offsets".into());
        }
        let mut rep = [0u32; 3];
        for r in rep.iter_mut() {
            *r = u32::from_le_bytes(raw[p..p + 4].try_into().unwrap());
            p += 4;
        }
        let content = raw[p..].to_vec();
        let ll = tabs.pop().unwrap();
        let ml = tabs.pop().unwrap();
        let of = tabs.pop().unwrap();
        Ok(Dict { id, huf_weights, of, ml, ll, rep, content })
    }
}
