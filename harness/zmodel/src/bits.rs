//! Bit I/O for the model. Forward writer/reader (LSB first, little endian), a backward-stream builder
//! (values pushed in the order the decoder READS them) and a backward reader.

#[derive(Default, Clone)]
pub struct FwdBits {
    pub bytes: Vec<u8>,
    acc: u64,
    n: u32,
}
impl FwdBits {
    pub fn new() -> Self {
        Self::default()
    }
    pub fn put(&mut self, v: u64, nbits: u32) {
        assert!(nbits <= 32 && v >> nbits == 0, "value {v} does not fit {nbits} bits");
        self.acc |= v << self.n;
        self.n += nbits;
        while self.n >= 8 {
            self.bytes.push(self.acc as u8);
            self.acc >>= 8;
            self.n -= 8;
        }
    }
    pub fn bits_written(&self) -> usize {
        self.bytes.len() * 8 + self.n as usize
    }
    /// pad with zero bits to a byte boundary
    pub fn finish(mut self) -> Vec<u8> {
        if self.n > 0 {
            self.bytes.push(self.acc as u8);
        }
        self.bytes
    }
}

/// Forward reader, LSB first.
pub struct FwdReader<'a> {
    src: &'a [u8],
    pub pos: usize,
}
impl<'a> FwdReader<'a> {
    pub fn new(src: &'a [u8]) -> Self {
        FwdReader { src, pos: 0 }
    }
    pub fn get(&mut self, n: u32) -> Option<u32> {
        if self.pos + n as usize > self.src.len() * 8 {
            return None;
        }
        let mut v = 0u32;
        for i in 0..n as usize {
            let p = self.pos + i;
            v |= (((self.src[p / 8] >> (p % 8)) & 1) as u32) << i;
        }
        self.pos += n as usize;
        Some(v)
    }
    pub fn unget(&mut self, n: u32) {
        self.pos -= n as usize;
    }
    pub fn bytes_used(&self) -> usize {
        self.pos.div_ceil(8)
    }
}

/// Items in decoder read order.
#[derive(Default, Clone)]
pub struct BackBits {
    items: Vec<(u64, u32)>,
}
impl BackBits {
    pub fn new() -> Self {
        Self::default()
    }
    pub fn push(&mut self, v: u64, nbits: u32) {
        assert!(nbits <= 57 && (nbits == 0 || v >> nbits == 0) && (nbits > 0 || v == 0), "value {v} does not fit {nbits} bits");
        if nbits > 0 {
            self.items.push((v, nbits));
        }
    }
    pub fn total_bits(&self) -> usize {
        self.items.iter().map(|x| x.1 as usize).sum()
    }
    /// Bytes such that a reader starting at the top of the last byte, skipping zero padding and the 1
    /// marker, then reading MSB-first downwards, obtains the items in order.
    pub fn finish(&self) -> Vec<u8> {
        let mut w = FwdBits::new();
        for &(v, n) in self.items.iter().rev() {
            let (mut v, mut n) = (v, n);
            while n > 32 {
                w.put(v & 0xFFFF_FFFF, 32);
                v >>= 32;
                n -= 32;
            }
            w.put(v, n);
        }
        w.put(1, 1);
        w.finish()
    }
}

/// Backward reader: `pos` = number of unread bits below the cursor. Reads past the start give zero bits and
/// are recorded in `overrun`.
pub struct BackReader<'a> {
    src: &'a [u8],
    pub pos: isize,
}
impl<'a> BackReader<'a> {
    /// None if the last byte is zero (no end mark) or the stream is empty
    pub fn new(src: &'a [u8]) -> Option<Self> {
        let last = *src.last()?;
        if last == 0 {
            return None;
        }
        let top = 7 - last.leading_zeros() as isize; // index of the marker bit within the last byte
        Some(BackReader { src, pos: (src.len() as isize - 1) * 8 + top })
    }
    pub fn get(&mut self, n: u32) -> u64 {
        let mut v = 0u64;
        for _ in 0..n {
            self.pos -= 1;
            let bit = if self.pos >= 0 { (self.src[self.pos as usize / 8] >> (self.pos as usize % 8)) & 1 } else { 0 };
            v = (v << 1) | bit as u64;
        }
        v
    }
    /// look at the next n bits without consuming (zero filled past the start)
    pub fn peek(&self, n: u32) -> u64 {
        let mut v = 0u64;
        let mut p = self.pos;
        for _ in 0..n {
            p -= 1;
            let bit = if p >= 0 { (self.src[p as usize / 8] >> (p as usize % 8)) & 1 } else { 0 };
            v = (v << 1) | bit as u64;
        }
        v
    }
}
