//! Bit I/O for the model. Forward writer (LSB first, little endian) and a "backward stream"
//! builder: values are pushed in the order the decoder will READ them; finish() emits the
//! bytes of a Zstandard backward bitstream (decoder starts at the last byte, highest bit).

#[derive(Default, Clone)]
pub struct FwdBits { pub bytes: Vec<u8>, acc: u64, n: u32 }
impl FwdBits {
    pub fn new() -> Self { Self::default() }
    pub fn put(&mut self, v: u64, nbits: u32) {
        assert!(nbits <= 32 && (nbits == 64 || v >> nbits == 0), "value {v} does not fit {nbits} bits");
        self.acc |= v << self.n; self.n += nbits;
        while self.n >= 8 { self.bytes.push(self.acc as u8); self.acc >>= 8; self.n -= 8; }
    }
    pub fn bits_written(&self) -> usize { self.bytes.len() * 8 + self.n as usize }
    /// pad with zero bits to a byte boundary
    pub fn finish(mut self) -> Vec<u8> { if self.n > 0 { self.bytes.push(self.acc as u8); } self.bytes }
}

/// Items in decoder read order.
#[derive(Default, Clone)]
pub struct BackBits { items: Vec<(u64, u32)> }
impl BackBits {
    pub fn new() -> Self { Self::default() }
    pub fn push(&mut self, v: u64, nbits: u32) { assert!(nbits == 0 || nbits <= 57 && v >> nbits == 0, "value {v} does not fit {nbits} bits"); if nbits > 0 { self.items.push((v, nbits)); } }
    pub fn total_bits(&self) -> usize { self.items.iter().map(|x| x.1 as usize).sum() }
    /// Bytes such that a reader starting at the top of the last byte, skipping zero padding and the
    /// 1 marker, then reading MSB-first downwards, obtains the items in order.
    pub fn finish(&self) -> Vec<u8> {
        // Build the bit string from the END of the stream to the start: the last item read is at the
        // lowest addresses. We create a forward LSB-first stream of: items reversed (each value's bits
        // little endian), then the marker 1.
        let mut w = FwdBits::new();
        for &(v, n) in self.items.iter().rev() {
            let mut v = v; let mut n = n;
            while n > 32 { w.put(v & 0xFFFF_FFFF, 32); v >>= 32; n -= 32; }
            w.put(v, n);
        }
        w.put(1, 1);
        w.finish()
    }
}
