//! XXH64, seed 0 (the content checksum is its low 32 bits).
pub fn xxh64(data: &[u8]) -> u64 {
    const P1: u64 = 0x9E3779B185EBCA87;
    const P2: u64 = 0xC2B2AE3D27D4EB4F;
    const P3: u64 = 0x165667B19E3779F9;
    const P4: u64 = 0x85EBCA77C2B2AE63;
    const P5: u64 = 0x27D4EB2F165667C5;
    let rd64 = |b: &[u8]| u64::from_le_bytes(b[..8].try_into().unwrap());
    let rd32 = |b: &[u8]| u32::from_le_bytes(b[..4].try_into().unwrap()) as u64;
    let round = |acc: u64, v: u64| acc.wrapping_add(v.wrapping_mul(P2)).rotate_left(31).wrapping_mul(P1);
    let merge = |h: u64, v: u64| (h ^ round(0, v)).wrapping_mul(P1).wrapping_add(P4);
    let mut p = data;
    let mut h: u64;
    if data.len() >= 32 {
        let (mut v1, mut v2, mut v3, mut v4) = (P1.wrapping_add(P2), P2, 0u64, 0u64.wrapping_sub(P1));
        while p.len() >= 32 {
            v1 = round(v1, rd64(p));
            v2 = round(v2, rd64(&p[8..]));
            v3 = round(v3, rd64(&p[16..]));
            v4 = round(v4, rd64(&p[24..]));
            p = &p[32..];
        }
        h = v1.rotate_left(1).wrapping_add(v2.rotate_left(7)).wrapping_add(v3.rotate_left(12)).wrapping_add(v4.rotate_left(18));
        h = merge(h, v1);
        h = merge(h, v2);
        h = merge(h, v3);
        h = merge(h, v4);
    } else {
        h = P5;
    }
    h = h.wrapping_add(data.len() as u64);
    while p.len() >= 8 {
        h ^= round(0, rd64(p));
        h = h.rotate_left(27).wrapping_mul(P1).wrapping_add(P4);
        p = &p[8..];
    }
    if p.len() >= 4 {
        h ^= rd32(p).wrapping_mul(P1);
        h = h.rotate_left(23).wrapping_mul(P2).wrapping_add(P3);
        p = &p[4..];
    }
    for &b in p {
        h ^= (b as u64).wrapping_mul(P5);
        h = h.rotate_left(11).wrapping_mul(P1);
    }
    h ^= h >> 33;
    h = h.wrapping_mul(P2);
    h ^= h >> 29;
    h = h.wrapping_mul(P3);
    h ^= h >> 32;
    h
}
pub fn checksum32(data: &[u8]) -> u32 {
    xxh64(data) as u32
}
