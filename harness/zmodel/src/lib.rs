//! zmodel — a model of the Zstandard format (RFC 8878), independent of ruzstd.
//!  * `frame`: spec encoder (FrameSpec -> bytes) and spec executor (FrameSpec -> plaintext)
//!  * `walker`: strict parser/decoder (bytes -> structure + plaintext, or the reason for rejection)
//!  * `fse`, `huf`, `bits`, `xxh`, `dict`: the pieces, transcribed from the RFC
//! Bound to reality on every run by the harness: frames emitted here must be accepted by libzstd with the
//! executor's plaintext; frames emitted by libzstd must be accepted by the walker with libzstd's plaintext.
pub mod bits;
pub mod dict;
pub mod frame;
pub mod fse;
pub mod huf;
pub mod tables;
pub mod walker;
pub mod xxh;
