//! Code tables of RFC 8878 section 3.1.1.3.2.1 and the predefined distributions (section 3.1.1.3.2.2).
pub const LL_BASE: [(u32, u8); 36] = [(0, 0), (1, 0), (2, 0), (3, 0), (4, 0), (5, 0), (6, 0), (7, 0), (8, 0), (9, 0), (10, 0), (11, 0), (12, 0), (13, 0), (14, 0), (15, 0), (16, 1), (18, 1), (20, 1), (22, 1), (24, 2), (28, 2), (32, 3), (40, 3), (48, 4), (64, 6), (128, 7), (256, 8), (512, 9), (1024, 10), (2048, 11), (4096, 12), (8192, 13), (16384, 14), (32768, 15), (65536, 16)];
pub const ML_BASE: [(u32, u8); 53] = [(3, 0), (4, 0), (5, 0), (6, 0), (7, 0), (8, 0), (9, 0), (10, 0), (11, 0), (12, 0), (13, 0), (14, 0), (15, 0), (16, 0), (17, 0), (18, 0), (19, 0), (20, 0), (21, 0), (22, 0), (23, 0), (24, 0), (25, 0), (26, 0), (27, 0), (28, 0), (29, 0), (30, 0), (31, 0), (32, 0), (33, 0), (34, 0), (35, 1), (37, 1), (39, 1), (41, 1), (43, 2), (47, 2), (51, 3), (59, 3), (67, 4), (83, 4), (99, 5), (131, 7), (259, 8), (515, 9), (1027, 10), (2051, 11), (4099, 12), (8195, 13), (16387, 14), (32771, 15), (65539, 16)];
pub const LL_DEFAULT: [i16; 36] = [4, 3, 2, 2, 2, 2, 2, 2, 2, 2, 2, 2, 2, 1, 1, 1, 2, 2, 2, 2, 2, 2, 2, 2, 2, 3, 2, 1, 1, 1, 1, 1, -1, -1, -1, -1];
pub const ML_DEFAULT: [i16; 53] = [1, 4, 3, 2, 2, 2, 2, 2, 2, 1, 1, 1, 1, 1, 1, 1, 1, 1, 1, 1, 1, 1, 1, 1, 1, 1, 1, 1, 1, 1, 1, 1, 1, 1, 1, 1, 1, 1, 1, 1, 1, 1, 1, 1, 1, 1, -1, -1, -1, -1, -1, -1, -1];
pub const OF_DEFAULT: [i16; 29] = [1, 1, 1, 1, 1, 1, 2, 2, 2, 1, 1, 1, 1, 1, 1, 1, 1, 1, 1, 1, 1, 1, 1, 1, -1, -1, -1, -1, -1];
pub const LL_DEFAULT_LOG: u8 = 6;
pub const ML_DEFAULT_LOG: u8 = 6;
pub const OF_DEFAULT_LOG: u8 = 5;
pub const LL_MAX_LOG: u8 = 9;
pub const ML_MAX_LOG: u8 = 9;
pub const OF_MAX_LOG: u8 = 8;
pub const MAX_BLOCK: usize = 128 * 1024;
pub const MAGIC: u32 = 0xFD2F_B528;
pub const DICT_MAGIC: u32 = 0xEC30_A437;
pub const WINDOW_MIN: u64 = 1024;
pub const WINDOW_MAX: u64 = (1u64 << 41) + 7 * (1u64 << 38);

/// value -> (code, extra value, extra bits); None if not representable
pub fn code_of(table: &[(u32, u8)], v: u32) -> Option<(u8, u32, u8)> {
    let c = table.iter().rposition(|&(b, _)| b <= v)?;
    let (b, n) = table[c];
    if (v - b) as u64 >= (1u64 << n) {
        return None;
    }
    Some((c as u8, v - b, n))
}
/// Offset_Value -> (code, extra value, extra bits)
pub fn of_code(offset_value: u32) -> (u8, u32, u8) {
    assert!(offset_value >= 1);
    let c = 31 - offset_value.leading_zeros();
    (c as u8, offset_value - (1u32 << c), c as u8)
}
/// Window_Size of a window descriptor byte
pub fn window_of_descriptor(d: u8) -> u64 {
    let exp = (d >> 3) as u64;
    let mant = (d & 7) as u64;
    let base = 1u64 << (10 + exp);
    base + (base / 8) * mant
}
