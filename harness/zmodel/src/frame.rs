//! Frame assembly + executor.
use crate::bits::{BackBits, FwdBits};
use crate::{fse, huf};

pub const LL_BASE: [(u32, u8); 36] = [(0,0),(1,0),(2,0),(3,0),(4,0),(5,0),(6,0),(7,0),(8,0),(9,0),(10,0),(11,0),(12,0),(13,0),(14,0),(15,0),(16,1),(18,1),(20,1),(22,1),(24,2),(28,2),(32,3),(40,3),(48,4),(64,6),(128,7),(256,8),(512,9),(1024,10),(2048,11),(4096,12),(8192,13),(16384,14),(32768,15),(65536,16)];
pub const ML_BASE: [(u32, u8); 53] = [(3,0),(4,0),(5,0),(6,0),(7,0),(8,0),(9,0),(10,0),(11,0),(12,0),(13,0),(14,0),(15,0),(16,0),(17,0),(18,0),(19,0),(20,0),(21,0),(22,0),(23,0),(24,0),(25,0),(26,0),(27,0),(28,0),(29,0),(30,0),(31,0),(32,0),(33,0),(34,0),(35,1),(37,1),(39,1),(41,1),(43,2),(47,2),(51,3),(59,3),(67,4),(83,4),(99,5),(131,7),(259,8),(515,9),(1027,10),(2051,11),(4099,12),(8195,13),(16387,14),(32771,15),(65539,16)];
pub const LL_DEFAULT: [i16; 36] = [4,3,2,2,2,2,2,2,2,2,2,2,2,1,1,1,2,2,2,2,2,2,2,2,2,3,2,1,1,1,1,1,-1,-1,-1,-1];
pub const ML_DEFAULT: [i16; 53] = [1,4,3,2,2,2,2,2,2,1,1,1,1,1,1,1,1,1,1,1,1,1,1,1,1,1,1,1,1,1,1,1,1,1,1,1,1,1,1,1,1,1,1,1,1,1,-1,-1,-1,-1,-1,-1,-1];
pub const OF_DEFAULT: [i16; 29] = [1,1,1,1,1,1,2,2,2,1,1,1,1,1,1,1,1,1,1,1,1,1,1,1,-1,-1,-1,-1,-1];

pub fn code_of(table: &[(u32, u8)], v: u32) -> (u8, u32, u8) { let c = table.iter().rposition(|&(b, _)| b <= v).unwrap(); let (b, n) = table[c]; assert!(v - b < (1u32 << n) || n == 0 && v == b, "value {v} not representable"); (c as u8, v - b, n) }

#[derive(Clone, Debug)]
pub enum Mode { Predefined, Rle(u8), Fse(Vec<i16>, u8), Repeat }
#[derive(Clone, Debug)]
pub enum Lits { Raw(Vec<u8>, u8), Rle(u8, u32, u8), Huff { lits: Vec<u8>, weights: Vec<u8>, desc: WDesc, streams: u8, size_format: u8 }, Treeless { lits: Vec<u8>, streams: u8, size_format: u8 } }
#[derive(Clone, Debug)]
pub enum WDesc { Direct, Fse(Vec<i16>, u8) }
#[derive(Clone, Copy, Debug)]
pub struct Seq { pub ll: u32, pub ml: u32, pub of: u32 } // of = Offset_Value
#[derive(Clone, Debug)]
pub enum Block { Raw(Vec<u8>), Rle(u8, u32), Compressed { lits: Lits, count_form: u8, modes: [Mode; 3], seqs: Vec<Seq> } } // modes: LL, OF, ML

#[derive(Clone, Default)]
pub struct EncState { pub huf: Option<Vec<u8>>, pub tabs: [Option<TabKind>; 3] }
#[derive(Clone)]
pub enum TabKind { Rle(u8), Fse(fse::Table) }

fn lit_bytes(l: &Lits) -> Vec<u8> { match l { Lits::Raw(v, _) => v.clone(), Lits::Rle(b, n, _) => vec![*b; *n as usize], Lits::Huff { lits, .. } | Lits::Treeless { lits, .. } => lits.clone() } }

fn raw_rle_header(ty: u8, n: u32, size_format: u8) -> Vec<u8> {
    match size_format { 0 | 2 => { assert!(n < 32); vec![ty | (size_format << 2) | ((n as u8) << 3)] }
        1 => { assert!(n < 4096); let v = ty as u32 | (1 << 2) | (n << 4); v.to_le_bytes()[..2].to_vec() }
        3 => { assert!(n < (1 << 20)); let v = ty as u32 | (3 << 2) | (n << 4); v.to_le_bytes()[..3].to_vec() }
        _ => unreachable!() }
}

fn huff_section(ty: u8, lits: &[u8], weights: &[u8], table_desc: Vec<u8>, streams: u8, size_format: u8) -> Vec<u8> {
    let cs = huf::codes(weights);
    let mut payload = table_desc;
    if streams == 1 { assert_eq!(size_format, 0); payload.extend(huf::encode_stream(&cs, lits)); }
    else { assert!(size_format >= 1); let q = (lits.len() + 3) / 4; let parts: Vec<&[u8]> = vec![&lits[..q.min(lits.len())], &lits[q.min(lits.len())..(2 * q).min(lits.len())], &lits[(2 * q).min(lits.len())..(3 * q).min(lits.len())], &lits[(3 * q).min(lits.len())..]];
        let enc: Vec<Vec<u8>> = parts.iter().map(|p| huf::encode_stream(&cs, p)).collect();
        for e in &enc[..3] { assert!(e.len() < 65536); payload.extend((e.len() as u16).to_le_bytes()); }
        for e in &enc { payload.extend(e); } }
    let (regen, comp) = (lits.len() as u64, payload.len() as u64);
    let (bits, hl) = match size_format { 0 | 1 => (10, 3), 2 => (14, 4), 3 => (18, 5), _ => unreachable!() };
    assert!(regen < (1 << bits) && comp < (1 << bits), "sizes do not fit size format");
    let v: u64 = ty as u64 | ((size_format as u64) << 2) | (regen << 4) | (comp << (4 + bits));
    let mut out = v.to_le_bytes()[..hl].to_vec(); out.extend(payload); out
}

pub fn encode_block_body(lits: &Lits, count_form: u8, modes: &[Mode; 3], seqs: &[Seq], st: &mut EncState) -> Vec<u8> {
    let mut out = match lits {
        Lits::Raw(v, sf) => { let mut h = raw_rle_header(0, v.len() as u32, *sf); h.extend(v); h }
        Lits::Rle(b, n, sf) => { let mut h = raw_rle_header(1, *n, *sf); h.push(*b); h }
        Lits::Huff { lits, weights, desc, streams, size_format } => {
            let head = &weights[..weights.len() - 1]; assert_eq!(huf::implied_last_weight(head), Some(*weights.last().unwrap()), "last weight must be the implied one");
            let d = match desc { WDesc::Direct => huf::describe_direct(head), WDesc::Fse(dist, log) => huf::describe_fse(head, dist, *log) };
            st.huf = Some(weights.clone()); huff_section(2, lits, weights, d, *streams, *size_format) }
        Lits::Treeless { lits, streams, size_format } => { let w = st.huf.clone().expect("treeless needs a table"); huff_section(3, lits, &w, vec![], *streams, *size_format) }
    };
    let n = seqs.len();
    match count_form { 1 => { assert!(n < 128); out.push(n as u8); } 2 => { assert!(n < 0x7F00); out.push(0x80 | (n >> 8) as u8); out.push(n as u8); } 3 => { assert!(n >= 0x7F00 && n <= 0x7F00 + 0xFFFF); out.push(0xFF); out.extend(((n - 0x7F00) as u16).to_le_bytes()); } _ => unreachable!() }
    if n == 0 { return out; }
    let mode_bits = |m: &Mode| match m { Mode::Predefined => 0u8, Mode::Rle(_) => 1, Mode::Fse(..) => 2, Mode::Repeat => 3 };
    out.push(mode_bits(&modes[0]) << 6 | mode_bits(&modes[1]) << 4 | mode_bits(&modes[2]) << 2);
    let defaults: [(&[i16], u8); 3] = [(&LL_DEFAULT, 6), (&OF_DEFAULT, 5), (&ML_DEFAULT, 6)];
    for i in 0..3 { match &modes[i] {
        Mode::Predefined => st.tabs[i] = Some(TabKind::Fse(fse::build(defaults[i].0, defaults[i].1))),
        Mode::Rle(s) => { out.push(*s); st.tabs[i] = Some(TabKind::Rle(*s)); }
        Mode::Fse(d, l) => { out.extend(fse::describe(d, *l)); st.tabs[i] = Some(TabKind::Fse(fse::build(d, *l))); }
        Mode::Repeat => assert!(st.tabs[i].is_some(), "repeat needs a previous table") } }
    // codes
    let codes: Vec<[(u8, u32, u8); 3]> = seqs.iter().map(|s| { let of_code = 31 - s.of.leading_zeros(); [code_of(&LL_BASE, s.ll), (of_code as u8, s.of - (1 << of_code), of_code as u8), code_of(&ML_BASE, s.ml)] }).collect();
    // states backwards per table
    let mut states = vec![[0usize; 3]; n]; let mut trans = vec![[(0u64, 0u32); 3]; n];
    for i in 0..3 { if let Some(TabKind::Fse(t)) = &st.tabs[i] { let enc = fse::Enc::new(t); states[n - 1][i] = enc.state_for(codes[n - 1][i].0, 0);
            for k in (0..n - 1).rev() { let (s, v, nb) = enc.prev_state(codes[k][i].0, states[k + 1][i]); states[k][i] = s; trans[k][i] = (v, nb); } }
        else if let Some(TabKind::Rle(sym)) = &st.tabs[i] { for c in &codes { assert_eq!(c[i].0, *sym, "RLE table symbol mismatch"); } } }
    let mut b = BackBits::new();
    for i in [0usize, 1, 2] { if let Some(TabKind::Fse(t)) = &st.tabs[i] { b.push(states[0][i] as u64, t.log as u32); } } // init order LL, OF, ML
    for k in 0..n { let c = &codes[k];
        b.push(c[1].1 as u64, c[1].2 as u32); b.push(c[2].1 as u64, c[2].2 as u32); b.push(c[0].1 as u64, c[0].2 as u32); // OF, ML, LL extra bits
        if k + 1 < n { for i in [0usize, 2, 1] { if let Some(TabKind::Fse(_)) = &st.tabs[i] { b.push(trans[k][i].0, trans[k][i].1); } } } } // update LL, ML, OF
    out.extend(b.finish());
    out
}

pub struct Header { pub window_desc: Option<u8>, pub fcs: Option<(u8, u64)>, pub dict_id: Option<(u8, u32)>, pub checksum: bool }

pub fn encode_frame(h: &Header, blocks: &[Block]) -> Vec<u8> {
    let mut out = 0xFD2FB528u32.to_le_bytes().to_vec();
    let fcs_flag = match h.fcs { None => 0, Some((1, _)) => 0, Some((2, _)) => 1, Some((4, _)) => 2, Some((8, _)) => 3, _ => panic!() };
    let did_flag = match h.dict_id { None => 0, Some((1, _)) => 1, Some((2, _)) => 2, Some((4, _)) => 3, _ => panic!() };
    let single = h.window_desc.is_none(); if single { assert!(h.fcs.is_some()); } else { assert!(!matches!(h.fcs, Some((1, _)))); }
    out.push((fcs_flag << 6) | ((single as u8) << 5) | ((h.checksum as u8) << 2) | did_flag);
    if let Some(w) = h.window_desc { out.push(w); }
    if let Some((w, id)) = h.dict_id { out.extend(&id.to_le_bytes()[..w as usize]); }
    if let Some((w, v)) = h.fcs { let v = if w == 2 { v - 256 } else { v }; out.extend(&v.to_le_bytes()[..w as usize]); }
    let mut st = EncState::default();
    for (i, b) in blocks.iter().enumerate() { let last = (i + 1 == blocks.len()) as u32;
        match b { Block::Raw(v) => { out.extend(&((v.len() as u32) << 3 | last).to_le_bytes()[..3]); out.extend(v); }
            Block::Rle(x, n) => { out.extend(&(n << 3 | 1 << 1 | last).to_le_bytes()[..3]); out.push(*x); }
            Block::Compressed { lits, count_form, modes, seqs } => { let body = encode_block_body(lits, *count_form, modes, seqs, &mut st); assert!(body.len() <= 128 * 1024); out.extend(&((body.len() as u32) << 3 | 2 << 1 | last).to_le_bytes()[..3]); out.extend(body); } } }
    if h.checksum { let x = crate::xxh64(&execute(blocks, &[])); out.extend(&(x as u32).to_le_bytes()); }
    out
}

/// Sequence execution semantics -> plaintext.
pub fn execute(blocks: &[Block], dict: &[u8]) -> Vec<u8> {
    let mut out: Vec<u8> = dict.to_vec(); let mut rep = [1u32, 4, 8];
    for b in blocks { match b { Block::Raw(v) => out.extend(v), Block::Rle(x, n) => out.extend(std::iter::repeat(*x).take(*n as usize)),
        Block::Compressed { lits, seqs, .. } => { let l = lit_bytes(lits); let mut lp = 0usize;
            for s in seqs { out.extend(&l[lp..lp + s.ll as usize]); lp += s.ll as usize;
                let off = if s.of > 3 { let o = s.of - 3; rep = [o, rep[0], rep[1]]; o } else { let idx = if s.ll == 0 { s.of } else { s.of - 1 }; // 0,1,2 ; 3 means rep[0]-1
                        let o = if idx == 3 { rep[0] - 1 } else { rep[idx as usize] }; assert!(o != 0);
                        if idx == 1 { rep = [o, rep[0], rep[2]]; } else if idx >= 2 { rep = [o, rep[0], rep[1]]; } o };
                assert!(off as usize <= out.len(), "offset {off} beyond history {}", out.len());
                for _ in 0..s.ml { let c = out[out.len() - off as usize]; out.push(c); } }
            out.extend(&l[lp..]); } } }
    out.split_off(dict.len())
}
