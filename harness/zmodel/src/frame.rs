//! Spec encoder (FrameSpec -> bytes) and spec executor (FrameSpec -> plaintext), RFC 8878 section 3.
use crate::bits::BackBits;
use crate::dict::Dict;
use crate::tables::*;
use crate::{fse, huf, xxh};

#[derive(Clone, Debug, PartialEq)]
pub enum Mode {
    Predefined,
    Rle(u8),
    Fse(Vec<i16>, u8),
    Repeat,
}
#[derive(Clone, Debug, PartialEq)]
pub enum WDesc {
    Direct,
    Fse(Vec<i16>, u8),
}
#[derive(Clone, Debug, PartialEq)]
pub enum Lits {
    /// (bytes, size_format 0|1|3: 5-, 12-, 20-bit size)
    Raw(Vec<u8>, u8),
    /// (byte, count, size_format)
    Rle(u8, u32, u8),
    /// weights = all symbols including the implied last one; streams 1|4; size_format 0..=3 (0 only with 1 stream)
    Huff { lits: Vec<u8>, weights: Vec<u8>, desc: WDesc, streams: u8, size_format: u8 },
    Treeless { lits: Vec<u8>, streams: u8, size_format: u8 },
}
#[derive(Clone, Copy, Debug, PartialEq, Eq)]
pub struct Seq {
    pub ll: u32,
    pub ml: u32,
    /// Offset_Value (1..=3 are repeat codes, otherwise offset + 3)
    pub of: u32,
}
#[derive(Clone, Debug, PartialEq)]
pub enum Block {
    Raw(Vec<u8>),
    Rle(u8, u32),
    /// modes in the order LL, OF, ML; count_form = 1, 2 or 3 bytes; pick = which of a symbol's states ends the
    /// backward chain (varies the initial states the decoder reads)
    Compressed { lits: Lits, count_form: u8, modes: [Mode; 3], seqs: Vec<Seq>, pick: usize },
    /// a block header the format forbids, written verbatim: (block type 0..=3, Block_Size field, content bytes).
    /// Never valid: `execute` refuses it.
    Hostile(u8, u32, Vec<u8>),
}

#[derive(Clone, Debug, PartialEq, Default)]
pub struct Header {
    /// None = single segment
    pub window_desc: Option<u8>,
    /// (field width 1|2|4|8, value)
    pub fcs: Option<(u8, u64)>,
    /// (field width 1|2|4, id)
    pub dict_id: Option<(u8, u32)>,
    pub checksum: bool,
    pub reserved_bit: bool,
    pub unused_bit: bool,
}
impl Header {
    pub fn window(desc: u8, checksum: bool) -> Header {
        Header { window_desc: Some(desc), checksum, ..Default::default() }
    }
    pub fn window_size(&self) -> u64 {
        match self.window_desc {
            Some(d) => window_of_descriptor(d),
            None => self.fcs.map(|f| f.1).unwrap_or(0),
        }
    }
}

#[derive(Clone, Debug, PartialEq)]
pub struct FrameSpec {
    pub header: Header,
    pub blocks: Vec<Block>,
}

#[derive(Clone, Debug)]
pub enum TabKind {
    Rle(u8),
    Fse(fse::Table),
}
#[derive(Clone, Debug, Default)]
pub struct EncState {
    pub huf: Option<Vec<u8>>,
    pub tabs: [Option<TabKind>; 3],
}
impl EncState {
    pub fn from_dict(d: &Dict) -> EncState {
        EncState { huf: Some(d.huf_weights.clone()), tabs: [Some(TabKind::Fse(d.ll.clone())), Some(TabKind::Fse(d.of.clone())), Some(TabKind::Fse(d.ml.clone()))] }
    }
}

pub fn lit_bytes(l: &Lits) -> Vec<u8> {
    match l {
        Lits::Raw(v, _) => v.clone(),
        Lits::Rle(b, n, _) => vec![*b; *n as usize],
        Lits::Huff { lits, .. } | Lits::Treeless { lits, .. } => lits.clone(),
    }
}

fn raw_rle_header(ty: u8, n: u32, size_format: u8) -> Result<Vec<u8>, String> {
    match size_format {
        0 => {
            // Size_Format uses one bit here (bit 2 = 0); bit 3 is already the lowest bit of the size
            if n >= 32 {
                return Err(format!("{n} literals do not fit the 5-bit size"));
            }
            Ok(vec![ty | ((n as u8) << 3)])
        }
        1 => {
            if n >= 4096 {
                return Err(format!("{n} literals do not fit the 12-bit size"));
            }
            let v = ty as u32 | (1 << 2) | (n << 4);
            Ok(v.to_le_bytes()[..2].to_vec())
        }
        3 => {
            if n >= (1 << 20) {
                return Err(format!("{n} literals do not fit the 20-bit size"));
            }
            let v = ty as u32 | (3 << 2) | (n << 4);
            Ok(v.to_le_bytes()[..3].to_vec())
        }
        _ => Err("size format".into()),
    }
}

/// split of `n` literals into four streams
pub fn four_way(n: usize) -> [usize; 4] {
    let q = n.div_ceil(4);
    let a = q.min(n);
    let b = (2 * q).min(n);
    let c = (3 * q).min(n);
    [a, b - a, c - b, n - c]
}

fn huff_section(ty: u8, lits: &[u8], weights: &[u8], table_desc: Vec<u8>, streams: u8, size_format: u8) -> Result<Vec<u8>, String> {
    if lits.iter().any(|&l| l as usize >= weights.len() || weights[l as usize] == 0) {
        return Err("literal without a code".into());
    }
    let cs = huf::codes(weights);
    let mut payload = table_desc;
    if streams == 1 {
        if size_format != 0 {
            return Err("one stream requires size format 0".into());
        }
        if lits.is_empty() {
            return Err("empty huffman stream".into());
        }
        payload.extend(huf::encode_stream(&cs, lits));
    } else {
        if size_format == 0 {
            return Err("four streams require size format 1..=3".into());
        }
        let parts = four_way(lits.len());
        let mut off = 0;
        let mut enc = vec![];
        for p in parts {
            enc.push(huf::encode_stream(&cs, &lits[off..off + p]));
            off += p;
        }
        for e in &enc[..3] {
            if e.len() >= 65536 {
                return Err("stream too long for the jump table".into());
            }
            payload.extend((e.len() as u16).to_le_bytes());
        }
        for e in &enc {
            payload.extend(e);
        }
    }
    let (regen, comp) = (lits.len() as u64, payload.len() as u64);
    let (bits, hl) = match size_format {
        0 | 1 => (10, 3),
        2 => (14, 4),
        3 => (18, 5),
        _ => return Err("size format".into()),
    };
    if regen >= (1 << bits) || comp >= (1 << bits) {
        return Err(format!("sizes {regen}/{comp} do not fit size format {size_format}"));
    }
    let v: u64 = ty as u64 | ((size_format as u64) << 2) | (regen << 4) | (comp << (4 + bits));
    let mut out = v.to_le_bytes()[..hl].to_vec();
    out.extend(payload);
    Ok(out)
}

pub fn default_table(i: usize) -> fse::Table {
    match i {
        0 => fse::build(&LL_DEFAULT, LL_DEFAULT_LOG),
        1 => fse::build(&OF_DEFAULT, OF_DEFAULT_LOG),
        _ => fse::build(&ML_DEFAULT, ML_DEFAULT_LOG),
    }
}

pub fn seq_codes(s: &Seq) -> Result<[(u8, u32, u8); 3], String> {
    let ll = code_of(&LL_BASE, s.ll).ok_or(format!("literal length {} not representable", s.ll))?;
    let ml = code_of(&ML_BASE, s.ml).ok_or(format!("match length {} not representable", s.ml))?;
    if s.of == 0 {
        return Err("offset value 0".into());
    }
    Ok([ll, of_code(s.of), ml])
}

pub fn encode_block_body(lits: &Lits, count_form: u8, modes: &[Mode; 3], seqs: &[Seq], pick: usize, st: &mut EncState) -> Result<Vec<u8>, String> {
    let mut out = match lits {
        Lits::Raw(v, sf) => {
            let mut h = raw_rle_header(0, v.len() as u32, *sf)?;
            h.extend(v);
            h
        }
        Lits::Rle(b, n, sf) => {
            let mut h = raw_rle_header(1, *n, *sf)?;
            h.push(*b);
            h
        }
        Lits::Huff { lits, weights, desc, streams, size_format } => {
            if weights.len() < 2 {
                return Err("need at least two symbols".into());
            }
            let head = &weights[..weights.len() - 1];
            if huf::implied_last_weight(head) != Some(*weights.last().unwrap()) || huf::lengths_from_weights(weights).is_none() {
                return Err("weights do not form a describable complete code".into());
            }
            let d = match desc {
                WDesc::Direct => {
                    if head.len() > 128 {
                        return Err("too many weights for the direct form".into());
                    }
                    huf::describe_direct(head)
                }
                WDesc::Fse(dist, log) => huf::describe_fse(head, dist, *log).ok_or("weights not encodable with this FSE table")?,
            };
            st.huf = Some(weights.clone());
            huff_section(2, lits, weights, d, *streams, *size_format)?
        }
        Lits::Treeless { lits, streams, size_format } => {
            let w = st.huf.clone().ok_or("treeless literals need a previous table")?;
            huff_section(3, lits, &w, vec![], *streams, *size_format)?
        }
    };
    let n = seqs.len();
    match count_form {
        1 => {
            if n >= 128 {
                return Err("count does not fit one byte".into());
            }
            out.push(n as u8);
        }
        2 => {
            if n >= 0x7F00 {
                return Err("count does not fit two bytes".into());
            }
            out.push(0x80 | (n >> 8) as u8);
            out.push(n as u8);
        }
        3 => {
            if !(0x7F00..=0x7F00 + 0xFFFF).contains(&n) {
                return Err("count does not fit the three-byte form".into());
            }
            out.push(0xFF);
            out.extend(((n - 0x7F00) as u16).to_le_bytes());
        }
        _ => return Err("count form".into()),
    }
    if n == 0 {
        return Ok(out);
    }
    let mode_bits = |m: &Mode| match m {
        Mode::Predefined => 0u8,
        Mode::Rle(_) => 1,
        Mode::Fse(..) => 2,
        Mode::Repeat => 3,
    };
    out.push(mode_bits(&modes[0]) << 6 | mode_bits(&modes[1]) << 4 | mode_bits(&modes[2]) << 2);
    let max_log = [LL_MAX_LOG, OF_MAX_LOG, ML_MAX_LOG];
    let max_sym = [35usize, 31, 52];
    for i in 0..3 {
        match &modes[i] {
            Mode::Predefined => st.tabs[i] = Some(TabKind::Fse(default_table(i))),
            Mode::Rle(s) => {
                if *s as usize > max_sym[i] {
                    return Err("RLE symbol out of range".into());
                }
                out.push(*s);
                st.tabs[i] = Some(TabKind::Rle(*s));
            }
            Mode::Fse(d, l) => {
                if *l > max_log[i] || *l < 5 || fse::dist_sum(d) != 1 << *l || d.len() > max_sym[i] + 1 {
                    return Err("FSE table not allowed here".into());
                }
                out.extend(fse::describe(d, *l));
                st.tabs[i] = Some(TabKind::Fse(fse::build(d, *l)));
            }
            Mode::Repeat => {
                if st.tabs[i].is_none() {
                    return Err("repeat mode needs a previous table".into());
                }
            }
        }
    }
    let mut codes = Vec::with_capacity(n);
    for s in seqs {
        codes.push(seq_codes(s)?);
    }
    // states backwards per table
    let mut states = vec![[0usize; 3]; n];
    let mut trans = vec![[(0u64, 0u32); 3]; n];
    for i in 0..3 {
        match &st.tabs[i] {
            Some(TabKind::Fse(t)) => {
                let enc = fse::Enc::new(t);
                for c in &codes {
                    if !enc.has(c[i].0) {
                        return Err(format!("code {} has no state in table {i}", c[i].0));
                    }
                }
                states[n - 1][i] = enc.state_for(codes[n - 1][i].0, pick);
                for k in (0..n - 1).rev() {
                    let (s, v, nb) = enc.prev_state(codes[k][i].0, states[k + 1][i]);
                    states[k][i] = s;
                    trans[k][i] = (v, nb);
                }
            }
            Some(TabKind::Rle(sym)) => {
                if codes.iter().any(|c| c[i].0 != *sym) {
                    return Err("sequence code differs from the RLE symbol".into());
                }
            }
            None => unreachable!(),
        }
    }
    let mut b = BackBits::new();
    for i in [0usize, 1, 2] {
        // initial states are read in the order LL, OF, ML
        if let Some(TabKind::Fse(t)) = &st.tabs[i] {
            b.push(states[0][i] as u64, t.log as u32);
        }
    }
    for k in 0..n {
        let c = &codes[k];
        // extra bits: OF, ML, LL
        b.push(c[1].1 as u64, c[1].2 as u32);
        b.push(c[2].1 as u64, c[2].2 as u32);
        b.push(c[0].1 as u64, c[0].2 as u32);
        if k + 1 < n {
            // state updates: LL, ML, OF
            for i in [0usize, 2, 1] {
                if let Some(TabKind::Fse(_)) = &st.tabs[i] {
                    b.push(trans[k][i].0, trans[k][i].1);
                }
            }
        }
    }
    out.extend(b.finish());
    Ok(out)
}

pub fn encode_header(h: &Header) -> Result<Vec<u8>, String> {
    let mut out = MAGIC.to_le_bytes().to_vec();
    let fcs_flag = match h.fcs {
        None => 0,
        Some((1, _)) => 0,
        Some((2, _)) => 1,
        Some((4, _)) => 2,
        Some((8, _)) => 3,
        _ => return Err("fcs width".into()),
    };
    let did_flag = match h.dict_id {
        None => 0,
        Some((1, _)) => 1,
        Some((2, _)) => 2,
        Some((4, _)) => 3,
        _ => return Err("dict id width".into()),
    };
    let single = h.window_desc.is_none();
    if single && h.fcs.is_none() {
        return Err("single segment needs a content size".into());
    }
    if !single && matches!(h.fcs, Some((1, _))) {
        return Err("1-byte content size exists only with single segment".into());
    }
    out.push((fcs_flag << 6) | ((single as u8) << 5) | ((h.unused_bit as u8) << 4) | ((h.reserved_bit as u8) << 3) | ((h.checksum as u8) << 2) | did_flag);
    if let Some(w) = h.window_desc {
        out.push(w);
    }
    if let Some((w, id)) = h.dict_id {
        if w < 4 && (id as u64) >> (8 * w) != 0 {
            return Err("dict id does not fit".into());
        }
        out.extend(&id.to_le_bytes()[..w as usize]);
    }
    if let Some((w, v)) = h.fcs {
        let v = if w == 2 {
            if !(256..=65791).contains(&v) {
                return Err("2-byte content size range".into());
            }
            v - 256
        } else {
            v
        };
        if w < 8 && v >> (8 * w) != 0 {
            return Err("content size does not fit".into());
        }
        out.extend(&v.to_le_bytes()[..w as usize]);
    }
    Ok(out)
}

pub fn encode_blocks(blocks: &[Block], st: &mut EncState) -> Result<Vec<u8>, String> {
    let mut out = vec![];
    for (i, b) in blocks.iter().enumerate() {
        let last = (i + 1 == blocks.len()) as u32;
        match b {
            Block::Raw(v) => {
                if v.len() > MAX_BLOCK {
                    return Err("raw block too large".into());
                }
                out.extend(&((v.len() as u32) << 3 | last).to_le_bytes()[..3]);
                out.extend(v);
            }
            Block::Rle(x, n) => {
                if *n as usize > MAX_BLOCK {
                    return Err("rle block too large".into());
                }
                out.extend(&(n << 3 | 1 << 1 | last).to_le_bytes()[..3]);
                out.push(*x);
            }
            Block::Hostile(ty, size, content) => {
                out.extend(&((size & 0x1F_FFFF) << 3 | (*ty as u32 & 3) << 1 | last).to_le_bytes()[..3]);
                out.extend(content);
            }
            Block::Compressed { lits, count_form, modes, seqs, pick } => {
                let body = encode_block_body(lits, *count_form, modes, seqs, *pick, st)?;
                if body.len() > MAX_BLOCK {
                    return Err("compressed block body too large".into());
                }
                out.extend(&((body.len() as u32) << 3 | 2 << 1 | last).to_le_bytes()[..3]);
                out.extend(body);
            }
        }
    }
    Ok(out)
}

/// FrameSpec -> bytes. The checksum is the model's own XXH64 of the executor's plaintext.
pub fn encode_frame(spec: &FrameSpec, dict: Option<&Dict>) -> Result<Vec<u8>, String> {
    if spec.blocks.is_empty() {
        return Err("a frame has at least one block".into());
    }
    let mut out = encode_header(&spec.header)?;
    let mut st = dict.map(EncState::from_dict).unwrap_or_default();
    out.extend(encode_blocks(&spec.blocks, &mut st)?);
    if spec.header.checksum {
        let plain = execute(&spec.blocks, dict)?;
        out.extend(&xxh::checksum32(&plain).to_le_bytes());
    }
    Ok(out)
}

/// Repeat-offset rule of section 3.1.1.5: returns the actual offset and updates the history.
pub fn resolve_offset(of: u32, ll: u32, rep: &mut [u32; 3]) -> Result<u32, String> {
    if of > 3 {
        let o = of - 3;
        *rep = [o, rep[0], rep[1]];
        return Ok(o);
    }
    let idx = if ll == 0 { of } else { of - 1 }; // 0, 1, 2; 3 means rep[0] - 1
    let o = if idx == 3 { rep[0].wrapping_sub(1) } else { rep[idx as usize] };
    if o == 0 || (idx == 3 && rep[0] == 0) {
        return Err("repeat offset resolves to 0".into());
    }
    match idx {
        0 => {}
        1 => *rep = [o, rep[0], rep[2]],
        _ => *rep = [o, rep[0], rep[1]],
    }
    Ok(o)
}

/// Sequence execution semantics -> plaintext (without the dictionary prefix). Errors on offsets beyond
/// dictionary + output and on literal counts that do not match.
pub fn execute(blocks: &[Block], dict: Option<&Dict>) -> Result<Vec<u8>, String> {
    let dict_content: &[u8] = dict.map(|d| d.content.as_slice()).unwrap_or(&[]);
    let mut out: Vec<u8> = dict_content.to_vec();
    let mut rep = dict.map(|d| d.rep).unwrap_or([1u32, 4, 8]);
    for b in blocks {
        match b {
            Block::Raw(v) => out.extend(v),
            Block::Rle(x, n) => out.extend(std::iter::repeat(*x).take(*n as usize)),
            Block::Hostile(..) => return Err("a block header the format forbids".into()),
            Block::Compressed { lits, seqs, .. } => {
                let l = lit_bytes(lits);
                let mut lp = 0usize;
                for s in seqs {
                    let end = lp + s.ll as usize;
                    if end > l.len() {
                        return Err("sequences use more literals than the block has".into());
                    }
                    out.extend(&l[lp..end]);
                    lp = end;
                    let off = resolve_offset(s.of, s.ll, &mut rep)? as usize;
                    if off > out.len() {
                        return Err(format!("offset {off} beyond dictionary+output {}", out.len()));
                    }
                    let start = out.len() - off;
                    for i in 0..s.ml as usize {
                        let c = out[start + i];
                        out.push(c);
                    }
                }
                out.extend(&l[lp..]);
            }
        }
    }
    Ok(out.split_off(dict_content.len()))
}

/// Convenience: bytes and plaintext of a spec; None if the spec cannot be represented.
pub fn realize(spec: &FrameSpec, dict: Option<&Dict>) -> Option<(Vec<u8>, Vec<u8>)> {
    let f = encode_frame(spec, dict).ok()?;
    let p = execute(&spec.blocks, dict).ok()?;
    Some((f, p))
}

pub fn pre() -> [Mode; 3] {
    [Mode::Predefined, Mode::Predefined, Mode::Predefined]
}
