//! Strict walker: bytes -> (header fields, per-block structure, every sequence, plaintext) or the precise
//! reason for rejection. Enforces the MUSTs of RFC 8878 that a lenient decoder may skip.
use crate::bits::BackReader;
use crate::dict::Dict;
use crate::frame::{default_table, resolve_offset, Seq, TabKind};
use crate::tables::*;
use crate::{fse, huf, xxh};

#[derive(Clone, Debug, PartialEq)]
pub struct HeaderInfo {
    pub descriptor: u8,
    pub header_len: usize,
    pub single_segment: bool,
    pub window_size: u64,
    pub fcs: Option<u64>,
    pub dict_id: Option<u32>,
    pub checksum_flag: bool,
}

#[derive(Clone, Debug, PartialEq, Default)]
pub struct BlockInfo {
    /// 0 raw, 1 rle, 2 compressed
    pub kind: u8,
    pub last: bool,
    /// bytes of block content in the frame
    pub stored: usize,
    pub regenerated: usize,
    /// literals section type 0 raw, 1 rle, 2 huffman, 3 treeless
    pub lits_type: Option<u8>,
    pub lits_regen: usize,
    pub lits_streams: u8,
    pub n_seqs: usize,
    pub modes: Option<u8>,
    pub seqs: Vec<Seq>,
    pub max_offset: usize,
}

#[derive(Clone, Debug)]
pub struct Walk {
    pub header: HeaderInfo,
    pub blocks: Vec<BlockInfo>,
    pub plaintext: Vec<u8>,
    pub checksum: Option<u32>,
    /// bytes of the frame, header through checksum
    pub consumed: usize,
}

pub fn parse_header(src: &[u8]) -> Result<HeaderInfo, String> {
    if src.len() < 5 {
        return Err("truncated before the frame header descriptor".into());
    }
    let magic = u32::from_le_bytes(src[..4].try_into().unwrap());
    if magic != MAGIC {
        return Err(format!("bad magic {magic:#x}"));
    }
    let d = src[4];
    if d & 0x08 != 0 {
        return Err("reserved bit set in the frame header descriptor".into());
    }
    let single = d & 0x20 != 0;
    let fcs_flag = d >> 6;
    let did_len = [0usize, 1, 2, 4][(d & 3) as usize];
    let fcs_len = match fcs_flag {
        0 => single as usize,
        1 => 2,
        2 => 4,
        _ => 8,
    };
    let mut p = 5;
    let need = 5 + (!single) as usize + did_len + fcs_len;
    if src.len() < need {
        return Err("truncated frame header".into());
    }
    let mut window = 0u64;
    if !single {
        window = window_of_descriptor(src[p]);
        p += 1;
    }
    let mut dict_id = None;
    if did_len > 0 {
        let mut b = [0u8; 4];
        b[..did_len].copy_from_slice(&src[p..p + did_len]);
        let id = u32::from_le_bytes(b);
        if id != 0 {
            dict_id = Some(id);
        }
        p += did_len;
    }
    let mut fcs = None;
    if fcs_len > 0 {
        let mut b = [0u8; 8];
        b[..fcs_len].copy_from_slice(&src[p..p + fcs_len]);
        let mut v = u64::from_le_bytes(b);
        if fcs_len == 2 {
            v += 256;
        }
        fcs = Some(v);
        p += fcs_len;
    }
    if single {
        window = fcs.unwrap();
    } else if !(WINDOW_MIN..=WINDOW_MAX).contains(&window) {
        return Err(format!("window size {window} outside the legal range"));
    }
    Ok(HeaderInfo { descriptor: d, header_len: p, single_segment: single, window_size: window, fcs, dict_id, checksum_flag: d & 4 != 0 })
}

struct State {
    huf: Option<Vec<u8>>,
    tabs: [Option<TabKind>; 3],
    rep: [u32; 3],
}

/// (type, regenerated, compressed, streams, header bytes)
pub fn parse_literals_header(b: &[u8]) -> Result<(u8, usize, Option<usize>, u8, usize), String> {
    let b0 = *b.first().ok_or("empty block")? as usize;
    let ty = (b0 & 3) as u8;
    let sf = (b0 >> 2) & 3;
    if ty < 2 {
        match sf {
            0 | 2 => Ok((ty, b0 >> 3, None, 0, 1)),
            1 => {
                if b.len() < 2 {
                    return Err("literals header truncated".into());
                }
                Ok((ty, (b0 >> 4) | (b[1] as usize) << 4, None, 0, 2))
            }
            _ => {
                if b.len() < 3 {
                    return Err("literals header truncated".into());
                }
                Ok((ty, (b0 >> 4) | (b[1] as usize) << 4 | (b[2] as usize) << 12, None, 0, 3))
            }
        }
    } else {
        let (bits, hl) = match sf {
            0 | 1 => (10, 3),
            2 => (14, 4),
            _ => (18, 5),
        };
        if b.len() < hl {
            return Err("literals header truncated".into());
        }
        let mut v = 0u64;
        for (i, x) in b[..hl].iter().enumerate() {
            v |= (*x as u64) << (8 * i);
        }
        let regen = ((v >> 4) & ((1 << bits) - 1)) as usize;
        let comp = ((v >> (4 + bits)) & ((1 << bits) - 1)) as usize;
        Ok((ty, regen, Some(comp), if sf == 0 { 1 } else { 4 }, hl))
    }
}

/// (number of sequences, modes byte, bytes used)
pub fn parse_sequences_header(b: &[u8]) -> Result<(usize, Option<u8>, usize), String> {
    let b0 = *b.first().ok_or("missing sequences section")? as usize;
    let (n, used) = if b0 < 128 {
        (b0, 1)
    } else if b0 < 255 {
        if b.len() < 2 {
            return Err("sequence count truncated".into());
        }
        (((b0 - 128) << 8) + b[1] as usize, 2)
    } else {
        if b.len() < 3 {
            return Err("sequence count truncated".into());
        }
        (b[1] as usize + ((b[2] as usize) << 8) + 0x7F00, 3)
    };
    if n == 0 {
        return Ok((0, None, used));
    }
    if b.len() < used + 1 {
        return Err("compression modes byte missing".into());
    }
    Ok((n, Some(b[used]), used + 1))
}

fn decode_literals(body: &[u8], st: &mut State, info: &mut BlockInfo) -> Result<(Vec<u8>, usize), String> {
    let (ty, regen, comp, streams, hl) = parse_literals_header(body)?;
    info.lits_type = Some(ty);
    info.lits_regen = regen;
    info.lits_streams = streams;
    if regen > MAX_BLOCK {
        return Err(format!("literals regenerate {regen} bytes, more than a block may hold"));
    }
    let rest = &body[hl..];
    match ty {
        0 => {
            if rest.len() < regen {
                return Err("raw literals truncated".into());
            }
            Ok((rest[..regen].to_vec(), hl + regen))
        }
        1 => {
            if rest.is_empty() {
                return Err("rle literal missing".into());
            }
            Ok((vec![rest[0]; regen], hl + 1))
        }
        _ => {
            let comp = comp.unwrap();
            if rest.len() < comp {
                return Err("compressed literals truncated".into());
            }
            let mut src = &rest[..comp];
            if ty == 2 {
                let (head, used) = huf::parse_description(src)?;
                let w = huf::complete(&head).ok_or("huffman weights do not form a complete code of depth <= 11")?;
                st.huf = Some(w);
                src = &src[used..];
            }
            let w = st.huf.clone().ok_or("treeless literals without a previous huffman table")?;
            let lits = if streams == 1 {
                huf::decode_stream(&w, src, regen)?
            } else {
                if src.len() < 6 {
                    return Err("jump table truncated".into());
                }
                let s1 = u16::from_le_bytes([src[0], src[1]]) as usize;
                let s2 = u16::from_le_bytes([src[2], src[3]]) as usize;
                let s3 = u16::from_le_bytes([src[4], src[5]]) as usize;
                let data = &src[6..];
                if s1 + s2 + s3 > data.len() {
                    return Err("jump table points past the literals section".into());
                }
                let parts = crate::frame::four_way(regen);
                let bounds = [0, s1, s1 + s2, s1 + s2 + s3, data.len()];
                let mut out = Vec::with_capacity(regen);
                for i in 0..4 {
                    out.extend(huf::decode_stream(&w, &data[bounds[i]..bounds[i + 1]], parts[i]).map_err(|e| format!("stream {}: {e}", i + 1))?);
                }
                out
            };
            Ok((lits, hl + comp))
        }
    }
}

fn decode_sequences(src: &[u8], n: usize, modes: u8, st: &mut State) -> Result<Vec<Seq>, String> {
    if modes & 3 != 0 {
        return Err("reserved bits set in the compression modes byte".into());
    }
    let mut p = 0usize;
    let max_log = [LL_MAX_LOG, OF_MAX_LOG, ML_MAX_LOG];
    let max_sym = [35usize, 31, 52];
    for i in 0..3 {
        let m = (modes >> (6 - 2 * i)) & 3;
        match m {
            0 => st.tabs[i] = Some(TabKind::Fse(default_table(i))),
            1 => {
                let s = *src.get(p).ok_or("RLE symbol missing")?;
                if s as usize > max_sym[i] {
                    return Err(format!("RLE symbol {s} out of range for table {i}"));
                }
                st.tabs[i] = Some(TabKind::Rle(s));
                p += 1;
            }
            2 => {
                let (log, dist, used) = fse::parse_description(&src[p..], max_log[i], max_sym[i]).map_err(|e| format!("table {i}: {e:?}"))?;
                st.tabs[i] = Some(TabKind::Fse(fse::build(&dist, log)));
                p += used;
            }
            _ => {
                if st.tabs[i].is_none() {
                    return Err(format!("repeat mode for table {i} without a previous table"));
                }
            }
        }
    }
    let mut r = BackReader::new(&src[p..]).ok_or("sequence bitstream without end mark")?;
    let mut state = [0usize; 3];
    for i in 0..3 {
        if let Some(TabKind::Fse(t)) = &st.tabs[i] {
            state[i] = r.get(t.log as u32) as usize;
        }
    }
    if r.pos < 0 {
        return Err("sequence bitstream shorter than the initial states".into());
    }
    let mut seqs = Vec::with_capacity(n);
    for k in 0..n {
        let mut code = [0u8; 3];
        for i in 0..3 {
            code[i] = match &st.tabs[i] {
                Some(TabKind::Fse(t)) => t.entries[state[i]].sym,
                Some(TabKind::Rle(s)) => *s,
                None => unreachable!(),
            };
        }
        if code[0] > 35 || code[1] > 31 || code[2] > 52 {
            return Err("code out of range".into());
        }
        let ofv = (1u64 << code[1]) + r.get(code[1] as u32);
        let (mlb, mln) = ML_BASE[code[2] as usize];
        let ml = mlb + r.get(mln as u32) as u32;
        let (llb, lln) = LL_BASE[code[0] as usize];
        let ll = llb + r.get(lln as u32) as u32;
        if k + 1 < n {
            for i in [0usize, 2, 1] {
                if let Some(TabKind::Fse(t)) = &st.tabs[i] {
                    let e = &t.entries[state[i]];
                    state[i] = e.base as usize + r.get(e.nbits as u32) as usize;
                }
            }
        }
        if r.pos < 0 {
            return Err(format!("sequence bitstream exhausted at sequence {k} of {n}"));
        }
        seqs.push(Seq { ll, ml, of: ofv as u32 });
    }
    if r.pos != 0 {
        return Err(format!("{} unused bits in the sequence bitstream", r.pos));
    }
    Ok(seqs)
}

/// Walk one frame that starts at src[0]. `dict` must be given iff the frame needs one.
pub fn walk(src: &[u8], dict: Option<&Dict>) -> Result<Walk, String> {
    let header = parse_header(src)?;
    if let Some(id) = header.dict_id {
        match dict {
            Some(d) if d.id == id => {}
            _ => return Err(format!("frame needs dictionary {id}")),
        }
    }
    let dict_content: &[u8] = dict.map(|d| d.content.as_slice()).unwrap_or(&[]);
    let mut st = State { huf: dict.map(|d| d.huf_weights.clone()), tabs: [None, None, None], rep: dict.map(|d| d.rep).unwrap_or([1, 4, 8]) };
    if let Some(d) = dict {
        st.tabs = [Some(TabKind::Fse(d.ll.clone())), Some(TabKind::Fse(d.of.clone())), Some(TabKind::Fse(d.ml.clone()))];
    }
    let mut out: Vec<u8> = dict_content.to_vec();
    let dl = dict_content.len();
    let mut p = header.header_len;
    let mut blocks = vec![];
    loop {
        if src.len() < p + 3 {
            return Err("truncated before a block header".into());
        }
        let h = src[p] as usize | (src[p + 1] as usize) << 8 | (src[p + 2] as usize) << 16;
        p += 3;
        let last = h & 1 == 1;
        let kind = ((h >> 1) & 3) as u8;
        let size = h >> 3;
        if kind == 3 {
            return Err("reserved block type".into());
        }
        if size > MAX_BLOCK {
            return Err(format!("block size {size} above 128 KiB"));
        }
        let mut info = BlockInfo { kind, last, ..Default::default() };
        let before = out.len();
        match kind {
            0 => {
                if src.len() < p + size {
                    return Err("raw block truncated".into());
                }
                out.extend(&src[p..p + size]);
                info.stored = size;
                p += size;
            }
            1 => {
                if src.len() < p + 1 {
                    return Err("rle block truncated".into());
                }
                out.extend(std::iter::repeat(src[p]).take(size));
                info.stored = 1;
                p += 1;
            }
            _ => {
                if src.len() < p + size {
                    return Err("compressed block truncated".into());
                }
                if size < 2 {
                    return Err("compressed block shorter than its two section headers".into());
                }
                let body = &src[p..p + size];
                info.stored = size;
                p += size;
                let (lits, used) = decode_literals(body, &mut st, &mut info)?;
                let (n, modes, hused) = parse_sequences_header(&body[used..])?;
                info.n_seqs = n;
                info.modes = modes;
                let rest = &body[used + hused..];
                if n == 0 {
                    if !rest.is_empty() {
                        return Err("bytes after an empty sequences section".into());
                    }
                    out.extend(&lits);
                } else {
                    let seqs = decode_sequences(rest, n, modes.unwrap(), &mut st)?;
                    let mut lp = 0usize;
                    for s in &seqs {
                        let end = lp + s.ll as usize;
                        if end > lits.len() {
                            return Err("sequences use more literals than the literals section holds".into());
                        }
                        out.extend(&lits[lp..end]);
                        lp = end;
                        let off = resolve_offset(s.of, s.ll, &mut st.rep)? as usize;
                        let produced = out.len() - dl;
                        info.max_offset = info.max_offset.max(off);
                        if off <= produced {
                            if off as u64 > header.window_size {
                                return Err(format!("offset {off} beyond the window {}", header.window_size));
                            }
                        } else if dl == 0 || off > out.len() {
                            return Err(format!("offset {off} beyond the {} bytes produced (+{dl} dictionary)", produced));
                        } else if produced as u64 > header.window_size {
                            return Err("dictionary referenced after the window slid past it".into());
                        }
                        if out.len() - before + s.ml as usize > MAX_BLOCK {
                            return Err("block regenerates more than 128 KiB".into());
                        }
                        let start = out.len() - off;
                        for i in 0..s.ml as usize {
                            let c = out[start + i];
                            out.push(c);
                        }
                    }
                    out.extend(&lits[lp..]);
                    info.seqs = seqs;
                }
            }
        }
        info.regenerated = out.len() - before;
        if info.regenerated > MAX_BLOCK {
            return Err(format!("block regenerates {} bytes, more than 128 KiB", info.regenerated));
        }
        blocks.push(info);
        if last {
            break;
        }
    }
    let plaintext = out.split_off(dl);
    let mut checksum = None;
    if header.checksum_flag {
        if src.len() < p + 4 {
            return Err("checksum truncated".into());
        }
        let c = u32::from_le_bytes(src[p..p + 4].try_into().unwrap());
        if c != xxh::checksum32(&plaintext) {
            return Err(format!("checksum {c:#x} does not match the content ({:#x})", xxh::checksum32(&plaintext)));
        }
        checksum = Some(c);
        p += 4;
    }
    if let Some(f) = header.fcs {
        if f != plaintext.len() as u64 {
            return Err(format!("declared content size {f} differs from the {} bytes regenerated", plaintext.len()));
        }
    }
    Ok(Walk { header, blocks, plaintext, checksum, consumed: p })
}

/// Walk a sequence of frames (with skippable frames) that must cover `src` exactly.
pub fn walk_all(mut src: &[u8]) -> Result<Vec<u8>, String> {
    let mut out = vec![];
    while !src.is_empty() {
        if src.len() >= 4 {
            let m = u32::from_le_bytes(src[..4].try_into().unwrap());
            if (0x184D2A50..=0x184D2A5F).contains(&m) {
                if src.len() < 8 {
                    return Err("skippable frame header truncated".into());
                }
                let n = u32::from_le_bytes(src[4..8].try_into().unwrap()) as usize;
                if src.len() < 8 + n {
                    return Err("skippable frame truncated".into());
                }
                src = &src[8 + n..];
                continue;
            }
        }
        let w = walk(src, None)?;
        out.extend(w.plaintext);
        src = &src[w.consumed..];
    }
    Ok(out)
}
