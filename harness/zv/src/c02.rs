//! C02 — compress then decompress returns the input and the frame is valid Zstandard; C15 — the output is
//! structurally valid and never larger than raw framing. Same executions, different oracles (`prop` selects).
use crate::c12::{merge, Acc};
use crate::cmp::{self, check, decision, near_uniform, skewed, text_like, unique, LEVELS};
use crate::ev::{show, Run, Tier};
use crate::meter::{self, guarded};
use ruzstd::encoding::{CompressionLevel, FrameCompressor};
use ruzstd::verif as rz;
use serde_json::{json, Value};
use std::collections::BTreeMap;
use std::io::Read;
use std::sync::Mutex;

fn record(a: &mut Acc, prop: &str, f: Vec<cmp::Finding>, input: &[u8], what: &str) {
    for x in f {
        if x.prop == prop {
            a.bad(x.identity.clone(), format!("[{what}] {}", x.what), json!({"case": what, "input": show(input), "input_len": input.len()}));
        }
    }
}

/// (a) every string over a small alphabet up to a length
fn small_scope(run: &mut Run, tier: Tier, prop: &str) {
    let th = meter::threads();
    for (alpha, maxlen) in [(2usize, tier.pick(14usize, 17)), (3, tier.pick(9, 11)), (4, tier.pick(6, 8))] {
        let mut total = 0usize;
        for l in 0..=maxlen {
            total += alpha.pow(l as u32);
        }
        let accs = meter::par_fold(total, th, Acc::default, |a, mut i| {
            let mut len = 0;
            while i >= alpha.pow(len as u32) {
                i -= alpha.pow(len as u32);
                len += 1;
            }
            let data: Vec<u8> = (0..len)
                .map(|_| {
                    let c = b'a' + (i % alpha) as u8;
                    i /= alpha;
                    c
                })
                .collect();
            for level in LEVELS {
                a.evals += 1;
                if len >= 5 {
                    a.nontrivial += 1;
                }
                let (f, _, _) = check(&data, level, "small");
                record(a, prop, f, &data, "small scope");
            }
        });
        merge(run, prop, &format!("all_strings_alphabet{alpha}_up_to_len{maxlen}"), accs, true);
    }
}

/// per-block decisions observed, previous -> next, across everything compressed in this run
pub static TRANSITIONS: Mutex<BTreeMap<String, u64>> = Mutex::new(BTreeMap::new());
fn note_decisions(w: &zmodel::walker::Walk) {
    let mut t = TRANSITIONS.lock().unwrap();
    let mut prev = "start".to_string();
    for b in &w.blocks {
        let d = decision(b).to_string();
        *t.entry(format!("{prev} -> {d}")).or_insert(0) += 1;
        prev = d;
    }
}

/// (b) threshold-directed families; returns the literal counts / symbol counts / lengths actually observed
fn families(run: &mut Run, tier: Tier, prop: &str) {
    let th = meter::threads();
    let mut inputs: Vec<(String, Vec<u8>)> = vec![];
    const B: usize = 128 * 1024;
    // lengths around nothing and around block multiples, three kinds of content
    for len in [0usize, 1, 2, 3, 4, 5, 6, 7, 8, 9, 10].into_iter().chain((1..=3).flat_map(|k| (-2i64..=2).map(move |d| (k * B) as i64 + d).map(|x| x as usize))) {
        inputs.push((format!("length {len} text"), text_like(len, 7)));
        inputs.push((format!("length {len} incompressible"), unique(len, 99)));
        inputs.push((format!("length {len} constant"), vec![0x41; len]));
        inputs.push((format!("length {len} skewed 200 symbols"), skewed(len, 200, 5)));
    }
    // literal count around 1024 (Huffman on/off) and 16384 (size format): L literals then a long run of matches
    for target in (1016..=1034).chain(16376..=16392) {
        // repeat-free skewed literals: the block has exactly `target` + (a few) literals
        let mut v = cmp::skewed_unique(target, target as u32);
        let pre: Vec<u8> = v[..64].to_vec();
        for _ in 0..40 {
            v.extend_from_slice(&pre);
        }
        inputs.push((format!("{target} repeat-free skewed literals, then matches"), v));
    }
    for target in (1000..=1060).chain(16370..=16400) {
        for k in [4usize, 40] {
            let mut v = skewed(target, k, target as u64);
            let pre: Vec<u8> = v[..64.min(v.len())].to_vec();
            for _ in 0..40 {
                v.extend_from_slice(&pre);
            }
            inputs.push((format!("about {target} literals over {k} symbols, then matches"), v));
        }
    }
    // number of distinct symbols
    for k in [1usize, 2, 3, 4, 15, 16, 17, 18, 19, 127, 128, 129, 254, 255, 256] {
        for n in [1025usize, 5000, 70_000] {
            inputs.push((format!("{k} distinct symbols, {n} bytes"), skewed(n, k, k as u64 * 31)));
        }
    }
    // match lengths across every match-length code boundary (a unique run, then a copy of its first m bytes)
    let ml_bounds: Vec<usize> = zmodel::tables::ML_BASE.iter().map(|b| b.0 as usize).filter(|&b| b >= 5 && b <= 65536).collect();
    for &b in &ml_bounds {
        for m in [b - 1, b, b + 1] {
            if m >= 5 && 2 * m + 40 <= B {
                let mut v = unique(m + 20, m as u32);
                let head: Vec<u8> = v[..m].to_vec();
                v.extend_from_slice(&head);
                v.extend_from_slice(&unique(13, 5));
                inputs.push((format!("match of length {m}"), v));
            }
        }
    }
    // literal runs across every literal-length code boundary, followed by a match
    for &(b, _) in zmodel::tables::LL_BASE.iter() {
        for r in [(b as usize).saturating_sub(1), b as usize, b as usize + 1] {
            if r >= 8 && r + 40 <= B {
                let mut v = cmp::skewed_unique(r, r as u32 + 1);
                let head: Vec<u8> = v[..8].to_vec();
                v.extend_from_slice(&head);
                v.extend_from_slice(&head);
                inputs.push((format!("literal run of {r} then a match"), v));
            }
        }
    }
    // many sequences in one block
    for period in [6usize, 7, 9, 16] {
        let v: Vec<u8> = (0..B).map(|i| ((i / period) as u32).wrapping_mul(2654435761).to_le_bytes()[0] ^ (i % period) as u8).collect();
        inputs.push((format!("period-{period} structure, one block"), v));
    }
    let observed: Mutex<(std::collections::BTreeSet<usize>, std::collections::BTreeSet<usize>)> = Mutex::new(Default::default());
    let accs = meter::par_fold(inputs.len(), th, Acc::default, |a, i| {
        let (name, data) = &inputs[i];
        for level in LEVELS {
            a.evals += 1;
            a.nontrivial += 1;
            let (f, w, _) = check(data, level, "family");
            record(a, prop, f, data, name);
            if let (Some(w), CompressionLevel::Fastest) = (&w, level) {
                note_decisions(w);
                let mut o = observed.lock().unwrap();
                for b in &w.blocks {
                    if b.kind == 2 {
                        // only Huffman-coded sections count: a raw section at the boundary would make the family vacuous
                        if b.lits_type.map_or(false, |t| t >= 2) {
                            o.0.insert(b.lits_regen);
                        }
                        o.1.insert(b.n_seqs);
                    }
                }
            }
        }
    });
    merge(run, prop, "threshold_directed_families", accs, false);
    let o = observed.lock().unwrap();
    let hit = |r: std::ops::RangeInclusive<usize>| o.0.iter().filter(|x| r.contains(x)).cloned().collect::<Vec<_>>();
    run.set("huffman_literal_counts_observed_1018_to_1030", json!(hit(1018..=1030)));
    run.set("huffman_literal_counts_observed_16378_to_16390", json!(hit(16378..=16390)));
    // (the compressor Huffman-codes literals only above 1024 bytes)
    for must in [1025usize, 1026, 16383, 16384, 16385] {
        if !o.0.contains(&must) {
            println!("C02 WARNING: no block with exactly {must} Huffman-coded literals was produced; the size-format boundary family is vacuous there");
            run.set(&format!("vacuous_boundary_{must}"), true);
        }
    }
    run.set("max_sequences_in_a_block_observed", o.1.iter().max().cloned().unwrap_or(0) as u64);
    let _ = tier;
}

/// the block generators of the decision automaton: one 128 KiB block per decision of the block encoder, including
/// the table-reuse decisions and the marginal band (also fed to the command line tool by C19)
pub fn decision_gens(tier: Tier) -> Vec<(String, Vec<u8>)> {
    const B: usize = 128 * 1024;
    let mut gens: Vec<(String, Vec<u8>)> = vec![("rle".into(), vec![0x55; B]), ("incompressible".into(), unique(B, 1)), ("text".into(), text_like(B, 3)), ("few literals many matches".into(), (0..B).map(|i| (i % 23) as u8).collect()), ("skewed 60 symbols".into(), skewed(B, 60, 9)), ("skewed 60 symbols again".into(), skewed(B, 60, 10))];
    // table reuse decisions: the same distribution with one extra rare symbol inside / above the previous symbol
    // range, with one symbol missing, and with a mildly different skew (code lengths differ by a few bits)
    {
        let base = skewed(B, 60, 9);
        let syms: Vec<u8> = {
            let mut v = base.clone();
            v.sort();
            v.dedup();
            v
        };
        let inner_unused = (1..255u8).find(|b| !syms.contains(b) && *b > syms[0] && *b < syms[syms.len() - 1]).unwrap();
        let mut with_inner = base.clone();
        with_inner[B / 3] = inner_unused;
        gens.push(("skewed 60 symbols + one rare symbol inside the range".into(), with_inner));
        let mut with_outer = base.clone();
        with_outer[B / 3] = 255.max(syms[syms.len() - 1]);
        if !syms.contains(&255) {
            gens.push(("skewed 60 symbols + one rare symbol above the range".into(), with_outer));
        }
        let rare = *syms.iter().min_by_key(|s| base.iter().filter(|b| *b == *s).count()).unwrap();
        let common = *syms.iter().max_by_key(|s| base.iter().filter(|b| *b == *s).count()).unwrap();
        gens.push(("skewed 60 symbols with the rarest symbol removed".into(), base.iter().map(|b| if *b == rare { common } else { *b }).collect()));
        gens.push(("skewed 59 symbols".into(), skewed(B, 59, 9)));
        gens.push(("skewed 61 symbols".into(), skewed(B, 61, 9)));
        gens.push(("skewed 60 symbols, two ranks swapped".into(), base.iter().map(|b| if *b == syms[3] { syms[4] } else if *b == syms[4] { syms[3] } else { *b }).collect()));
    }
    // the marginal band: near-uniform blocks over 254/255 symbols, where the Huffman coder gains a few dozen bytes
    // at most; a few planted 5-byte matches and a small skew decide whether the block as a whole is still smaller
    let boosts: Vec<usize> = tier.pick(vec![0, 10, 20, 30, 40, 50, 60, 100, 2000], vec![0, 2, 4, 6, 8, 10, 12, 15, 18, 21, 25, 30, 35, 40, 45, 50, 60, 80, 100, 500, 2000]);
    for k in [254usize, 255] {
        for &b in &boosts {
            for m in tier.pick(vec![0usize, 1, 3], vec![0, 1, 2, 3]) {
                if k == 254 && b % 20 != 0 {
                    continue;
                }
                gens.push((format!("near-uniform {k} symbols, symbol 0 boosted by {b}, {m} planted match(es)"), near_uniform(B, k, b, m, 11 + m as u64)));
            }
        }
    }
    // sequences whose offset codes are spread evenly over 13 codes, plus one code used once: the scaled histogram
    // of the offset table reaches its largest sums here (ordinary data has a peaked offset distribution). Copies
    // are taken from bytes that are not themselves copies, so the match finder reports the planted distances.
    for per_code in [19usize, 28] {
        let mut rnd = cmp::xorshift(4242 + per_code as u64);
        let mut v: Vec<u8> = (0..66_000).map(|_| (rnd() >> 24) as u8).collect();
        let mut fresh = vec![true; v.len()];
        let mut plant = |v: &mut Vec<u8>, fresh: &mut Vec<bool>, rnd: &mut dyn FnMut() -> u64, lo: usize, hi: usize, len: usize| {
            for _ in 0..120 {
                v.push((rnd() >> 24) as u8);
                fresh.push(true);
            }
            let pos = v.len();
            let (offset, len) = loop {
                let offset = lo + (rnd() >> 16) as usize % (hi.min(pos) - lo + 1);
                let len = len.min(offset);
                if fresh[pos - offset..pos - offset + len].iter().all(|f| *f) {
                    break (offset, len);
                }
            };
            for i in 0..len {
                v.push(v[pos - offset + i]);
                fresh.push(false);
            }
        };
        plant(&mut v, &mut fresh, &mut rnd, 10, 10, 10);
        for _ in 0..per_code {
            for code in 4..=16u32 {
                plant(&mut v, &mut fresh, &mut rnd, (1usize << code) - 3, (1usize << (code + 1)) - 4, 40);
            }
        }
        for _ in 0..120 {
            v.push((rnd() >> 24) as u8);
        }
        assert!(v.len() < B);
        gens.push((format!("offset codes 4..=16 used {per_code} times each, one short-distance copy"), v));
    }
    // periodic blocks: one period of literals with an exactly chosen histogram, the rest of the block matches. With
    // ~1100 literals over 200 byte values the table description costs more than Huffman coding saves, so the block
    // is emitted compressed but with *raw* literals; the next blocks use the same 200 values with eight of them
    // dominating (Huffman pays, code lengths close to the first block's never-written table)
    {
        let multiset = cmp::multiset200;
        let cyc = |p: Vec<u8>| -> Vec<u8> { p.iter().copied().cycle().take(B).collect() };
        gens.push(("period of 1112 literals over 200 values, nearly uniform (compressed block, raw literals)".into(), cyc(multiset(&|s| if s < 8 { 7 } else if s < 104 { 6 } else { 5 }, 71))));
        for (top, rare) in [(400usize, 3usize), (800, 4), (3000, 6)] {
            gens.push((format!("period over the same 200 values, eight of them {top} times, the others {rare} times"), cyc(multiset(&|s| if s < 8 { top } else { rare }, 72 + top as u64))));
        }
    }
    gens
}

/// (c) the block encoder's decision automaton: one 128 KiB generator per decision incl. the marginal ones
fn decision_automaton(run: &mut Run, tier: Tier, prop: &str) {
    let th = meter::threads();
    const B: usize = 128 * 1024;
    let gens = decision_gens(tier);
    // which generators are marginal on this tree: Huffman accepted for the literals, block nevertheless stored raw
    let marginal: Vec<String> = gens
        .iter()
        .filter(|(_, v)| {
            let lit_huff = guarded(|| rz::compress_literals(v, None)).map(|(sec, _)| sec[0] & 3 == 2).unwrap_or(false);
            let frame = guarded(|| ruzstd::encoding::compress_to_vec(v.as_slice(), CompressionLevel::Fastest)).unwrap_or_default();
            let raw = zmodel::walker::walk(&frame, None).map(|w| w.blocks[0].kind == 0).unwrap_or(false);
            lit_huff && raw
        })
        .map(|g| g.0.clone())
        .collect();
    run.set("marginal_generators_huffman_accepted_block_raw", json!(marginal));
    run.set("decision_generators", gens.len() as u64);
    let depth = tier.pick(2usize, 2);
    let mut seqs: Vec<Vec<usize>> = vec![];
    for a in 0..gens.len() {
        seqs.push(vec![a]);
        for b in 0..gens.len() {
            seqs.push(vec![a, b]);
        }
    }
    if tier == Tier::Thorough {
        // depth 3 over a reduced alphabet: the plain generators and five marginal ones
        let red: Vec<usize> = (0..gens.len()).filter(|i| *i < 6 || i % 7 == 0).collect();
        for &a in &red {
            for &b in &red {
                for &c in &red {
                    seqs.push(vec![a, b, c]);
                }
            }
        }
    }
    let _ = depth;
    let accs = meter::par_fold(seqs.len(), th, Acc::default, |a, i| {
        let mut data = vec![];
        for &g in &seqs[i] {
            data.extend_from_slice(&gens[g].1);
        }
        data.extend_from_slice(b"short last block");
        a.evals += 1;
        a.nontrivial += 1;
        let name: Vec<&str> = seqs[i].iter().map(|&g| gens[g].0.as_str()).collect();
        let (f, w, _) = check(&data, CompressionLevel::Fastest, "automaton");
        if let Some(w) = &w {
            note_decisions(w);
        }
        record(a, prop, f, &data[..64], &format!("blocks {:?} + short last block", name));
    });
    merge(run, prop, "block_decision_automaton", accs, false);
}

/// (d) reuse histories: every sequence of frames through one compressor equals fresh compressors
fn reuse(run: &mut Run, tier: Tier, prop: &str) {
    let th = meter::threads();
    const B: usize = 128 * 1024;
    let ins: Vec<Vec<u8>> = vec![vec![], b"x".to_vec(), text_like(3000, 1), skewed(B, 60, 9), skewed(B + 7000, 60, 10), unique(2 * B, 3), vec![7; B + 1], (0..50_000).map(|i| (i % 23) as u8).collect()];
    let len = tier.pick(2usize, 3);
    let x = reuse_family(run, prop, ins, len, &format!("reuse_histories_up_to_{len}_frames"));
    run.set("reused_frames_differing_from_fresh_but_valid", x[0]);
    // short frames of every size mix: what one frame leaves behind in recycled buffers (their lengths, the pool's
    // order) shapes how the next frames are cut into blocks; every history of up to 4/5 frames over six short inputs
    let short: Vec<Vec<u8>> = vec![vec![], b"x".to_vec(), text_like(10, 2), text_like(30, 3), text_like(100, 4), text_like(3000, 5)];
    let len = tier.pick(4usize, 5);
    reuse_family(run, prop, short, len, &format!("reuse_histories_of_short_frames_up_to_{len}_frames"));
}

fn reuse_family(run: &mut Run, prop: &str, ins: Vec<Vec<u8>>, len: usize, name: &str) -> [u64; 4] {
    let th = meter::threads();
    let total = (1..=len).map(|l| ins.len().pow(l as u32)).sum::<usize>();
    let fresh: Vec<Vec<Vec<u8>>> = LEVELS.iter().map(|&l| ins.iter().map(|i| ruzstd::encoding::compress_to_vec(i.as_slice(), l)).collect()).collect();
    let accs = meter::par_fold(total, th, Acc::default, |a, mut k| {
        let mut l = 1;
        while k >= ins.len().pow(l as u32) {
            k -= ins.len().pow(l as u32);
            l += 1;
        }
        let h: Vec<usize> = (0..l)
            .map(|_| {
                let x = k % ins.len();
                k /= ins.len();
                x
            })
            .collect();
        for (li, &level) in LEVELS.iter().enumerate() {
            a.evals += 1;
            a.nontrivial += 1;
            let r = guarded(|| {
                let mut c: FrameCompressor<&[u8], Vec<u8>, _> = FrameCompressor::new(level);
                let mut outs = vec![];
                for &i in &h {
                    c.set_source(ins[i].as_slice());
                    c.set_drain(Vec::new());
                    c.compress();
                    outs.push(c.take_drain().unwrap());
                }
                outs
            });
            match r {
                Err(p) => a.bad(format!("reuse:panic:{}", p.rsplit(" @ ").next().unwrap_or("")), format!("reused compressor panicked on history {:?}: {p}", h), json!({"case": "reuse", "history": h})),
                Ok(outs) => {
                    for (pos, (o, &i)) in outs.iter().zip(h.iter()).enumerate() {
                        // the property asks that every frame of a reused compressor is a correct frame; byte equality
                        // with a fresh compressor is only counted (recycled match-finder buffers may legitimately
                        // find other matches)
                        if *o != fresh[li][i] {
                            a.extra[0] += 1;
                        }
                        let (f, _) = cmp::judge(&ins[i], o, level, "reuse");
                        if !f.is_empty() {
                            record(a, prop, f, &ins[i][..ins[i].len().min(64)], &format!("frame {pos} of reuse history {:?}", h));
                            break;
                        }
                    }
                }
            }
        }
    });
    merge(run, prop, name, accs, true)
}

struct Frag<'a> {
    data: &'a [u8],
    plan: Vec<usize>,
    k: usize,
}
impl Read for Frag<'_> {
    fn read(&mut self, buf: &mut [u8]) -> std::io::Result<usize> {
        let want = if self.plan.is_empty() { self.k } else { self.plan.remove(0) };
        let n = want.min(buf.len()).min(self.data.len());
        buf[..n].copy_from_slice(&self.data[..n]);
        self.data = &self.data[n..];
        Ok(n)
    }
}

/// (e) read fragmentation: the output must be identical to the unfragmented run
fn fragmentation(run: &mut Run, tier: Tier, prop: &str) {
    if prop != "C02" {
        return;
    }
    let th = meter::threads();
    const B: usize = 128 * 1024;
    // all compositions of the length for short inputs
    let short: Vec<Vec<u8>> = vec![b"abcabcabcabc".to_vec(), b"aaaaaaaaaaa".to_vec(), unique(tier.pick(10, 13), 4)];
    let mut cases: Vec<(usize, Vec<usize>)> = vec![];
    for (si, s) in short.iter().enumerate() {
        let n = s.len();
        for mask in 0..(1u32 << (n - 1)) {
            let mut plan = vec![];
            let mut run_len = 1;
            for b in 0..n - 1 {
                if mask >> b & 1 == 1 {
                    plan.push(run_len);
                    run_len = 1;
                } else {
                    run_len += 1;
                }
            }
            plan.push(run_len);
            cases.push((si, plan));
        }
    }
    let accs = meter::par_fold(cases.len(), th, Acc::default, |a, i| {
        let (si, plan) = &cases[i];
        for level in LEVELS {
            a.evals += 1;
            a.nontrivial += 1;
            let want = ruzstd::encoding::compress_to_vec(short[*si].as_slice(), level);
            let got = guarded(|| ruzstd::encoding::compress_to_vec(Frag { data: &short[*si], plan: plan.clone(), k: 1 << 20 }, level));
            if got.as_ref().ok() != Some(&want) {
                a.bad(format!("fragmentation:short:{}", cmp::level_name(level)), format!("input {:?} read in pieces {:?}: output differs from the unfragmented run ({:?})", String::from_utf8_lossy(&short[*si]), plan, got.map(|v| v.len())), json!({"case": "fragmentation", "plan": plan}));
            }
        }
    });
    merge(run, prop, "read_fragmentation_all_compositions_short_inputs", accs, true);
    let big: Vec<Vec<u8>> = vec![text_like(B, 1), text_like(B + 1, 2), text_like(2 * B, 3), text_like(2 * B - 1, 4), skewed(3 * B + 5, 60, 9)];
    let ks = [1usize, 7, 4096, B - 1, B, B + 1];
    let accs = meter::par_fold(big.len() * ks.len(), th, Acc::default, |a, i| {
        let (d, k) = (&big[i / ks.len()], ks[i % ks.len()]);
        for level in LEVELS {
            if k == 1 && level_is_uncompressed(level) && d.len() > 2 * B {
                continue;
            }
            a.evals += 1;
            a.nontrivial += 1;
            let want = ruzstd::encoding::compress_to_vec(d.as_slice(), level);
            let got = guarded(|| ruzstd::encoding::compress_to_vec(Frag { data: d, plan: vec![], k }, level));
            if got.as_ref().ok() != Some(&want) {
                a.bad(format!("fragmentation:block_boundary:{}", cmp::level_name(level)), format!("{}-byte input read {k} bytes at a time: output differs from the unfragmented run ({:?} vs {} bytes)", d.len(), got.map(|v| v.len()), want.len()), json!({"case": "fragmentation", "len": d.len(), "k": k}));
            }
        }
    });
    merge(run, prop, "read_fragmentation_block_boundary_inputs", accs, false);
}
fn level_is_uncompressed(l: CompressionLevel) -> bool {
    matches!(l, CompressionLevel::Uncompressed)
}

pub fn run_all(run: &mut Run, tier: Tier, prop: &str) {
    small_scope(run, tier, prop);
    families(run, tier, prop);
    decision_automaton(run, tier, prop);
    reuse(run, tier, prop);
    if prop == "C02" {
        // the compressor as an object: every operation sequence to a depth (shared with C08)
        crate::c08::compressor_protocol(run, tier, prop);
    }
    fragmentation(run, tier, prop);
    let t = TRANSITIONS.lock().unwrap();
    run.set("observed_block_decision_transitions", json!(*t));
    let all = ["raw", "rle", "compressed/raw-literals", "compressed/huffman", "compressed/treeless"];
    let missing: Vec<&str> = all.iter().filter(|d| !t.keys().any(|k| k.ends_with(&format!("-> {d}")))).cloned().collect();
    run.set("block_decisions_never_observed", json!(missing));
    run.set("raw_fallback_followed_by_treeless_observed", t.keys().any(|k| k == "raw -> compressed/treeless"));
}

pub fn main(tier: Tier, replay: Option<Value>) -> i32 {
    if replay.is_some() {
        println!("C02 replays are case descriptions; rerun ./check C02");
        return 2;
    }
    let mut run = Run::new("C02", "exploration", tier);
    run_all(&mut run, tier, "C02");
    run.set("exhaustive", false);
    run.set("rule", "(a) every string over {a,b} up to length 14/17, {a,b,c} up to 9/11, {a,b,c,d} up to 6/8, both levels; (b) threshold-directed families: lengths around 0 and around 1-3 block multiples x 4 content kinds, literal counts swept across 1024 and 16384, distinct symbol counts at every table-format boundary, match lengths and literal runs at every code boundary; (c) the block encoder's decision automaton: one 128 KiB generator per decision including a band of near-uniform blocks around the Huffman break-even (found by bisection through the literals hook), all sequences of two (thorough: three over a reduced alphabet) blocks + a short last block, with the observed previous->next decision matrix in the evidence; (d) every history of <= 2/3 frames over 8 inputs, and every history of <= 4/5 frames over six short inputs (0, 1, 10, 30, 100, 3000 bytes), through one reused FrameCompressor: every frame judged like a fresh compressor's; (e) every composition of the length as read sizes for short inputs, block-boundary read sizes for multi-block inputs. Oracle: this crate's decoder and libzstd return the input. non-trivial = inputs of at least 5 bytes");
    run.sample(json!({"case": "small scope", "input": "abbabbabbabbab", "levels": ["Uncompressed", "Fastest"]}));
    run.sample(json!({"case": "automaton", "blocks": ["near-uniform 255 symbols at the Huffman break-even +3, 1 planted match", "near-uniform +40", "short last block"]}));
    run.finish()
}
