//! Binding of zmodel to libzstd and to ruzstd on a directed set of frames (the prototype's feasibility list).
use crate::refz;
use zmodel::frame::*;

pub fn cases() -> Vec<(String, FrameSpec)> {
    let h = Header::window(0x00, true);
    let hbig = |w: u8| Header::window(w, false);
    let lits: Vec<u8> = b"abcdefghijklmnopqrstuvwxyz0123456789".to_vec();
    let mut v: Vec<(String, FrameSpec)> = vec![];
    let mut add = |n: &str, header: Header, blocks: Vec<Block>| v.push((n.to_string(), FrameSpec { header, blocks }));
    let c = |lits: Lits, count_form: u8, modes: [Mode; 3], seqs: Vec<Seq>| Block::Compressed { lits, count_form, modes, seqs, pick: 0 };
    add("raw+rle blocks", h.clone(), vec![Block::Raw(b"hello".to_vec()), Block::Rle(b'x', 1000), Block::Raw(vec![])]);
    add("rawlits predefined 3 seqs", h.clone(), vec![c(Lits::Raw(lits.clone(), 1), 1, pre(), vec![Seq { ll: 5, ml: 4, of: 8 }, Seq { ll: 0, ml: 10, of: 1 }, Seq { ll: 3, ml: 3, of: 2 }])]);
    add("2-byte count form small n", h.clone(), vec![c(Lits::Raw(lits.clone(), 3), 2, pre(), vec![Seq { ll: 5, ml: 4, of: 4 }])]);
    add("rle lits RLE modes", h.clone(), vec![c(Lits::Rle(b'z', 20, 0), 1, [Mode::Rle(4), Mode::Rle(2), Mode::Rle(1)], vec![Seq { ll: 4, ml: 4, of: 4 }, Seq { ll: 4, ml: 4, of: 5 }, Seq { ll: 4, ml: 4, of: 7 }])]);
    let mut lld = vec![0i16; 6];
    lld[0] = 10;
    lld[5] = 20;
    lld[3] = -1;
    lld[1] = 1;
    let ofd = vec![15i16, 1, 1, 15];
    let mut mld = vec![0i16; 10];
    mld[0] = 30;
    mld[9] = -1;
    mld[1] = 1;
    let fse_modes = [Mode::Fse(lld, 5), Mode::Fse(ofd, 5), Mode::Fse(mld, 5)];
    let seqs = vec![Seq { ll: 5, ml: 3, of: 8 }, Seq { ll: 0, ml: 12, of: 1 }, Seq { ll: 3, ml: 3, of: 9 }, Seq { ll: 1, ml: 4, of: 7 }, Seq { ll: 0, ml: 3, of: 3 }];
    add("FSE modes", h.clone(), vec![c(Lits::Raw(lits.clone(), 1), 1, fse_modes.clone(), seqs.clone())]);
    add("FSE then Repeat", h.clone(), vec![c(Lits::Raw(lits.clone(), 1), 1, fse_modes.clone(), seqs.clone()), c(Lits::Raw(lits.clone(), 1), 1, [Mode::Repeat, Mode::Repeat, Mode::Repeat], seqs.clone())]);
    add("RLE then Repeat", h.clone(), vec![c(Lits::Rle(b'z', 20, 0), 1, [Mode::Rle(4), Mode::Rle(2), Mode::Rle(1)], vec![Seq { ll: 4, ml: 4, of: 4 }]), c(Lits::Rle(b'y', 20, 0), 1, [Mode::Repeat, Mode::Repeat, Mode::Repeat], vec![Seq { ll: 4, ml: 4, of: 5 }, Seq { ll: 4, ml: 4, of: 6 }])]);
    let w = vec![4u8, 3, 2, 1, 1];
    let hl: Vec<u8> = b"aaaabbbcdeaabbccddeeabcde".iter().map(|c| c - b'a').collect();
    add("huff direct 1 stream", h.clone(), vec![c(Lits::Huff { lits: hl.clone(), weights: w.clone(), desc: WDesc::Direct, streams: 1, size_format: 0 }, 1, pre(), vec![])]);
    add("huff direct 4 streams", h.clone(), vec![c(Lits::Huff { lits: hl.clone(), weights: w.clone(), desc: WDesc::Direct, streams: 4, size_format: 1 }, 1, pre(), vec![Seq { ll: 5, ml: 4, of: 5 }])]);
    add("huff 4 streams sf2 sf3 treeless", h.clone(), vec![c(Lits::Huff { lits: hl.clone(), weights: w.clone(), desc: WDesc::Direct, streams: 4, size_format: 2 }, 1, pre(), vec![]), c(Lits::Treeless { lits: hl.clone(), streams: 4, size_format: 3 }, 1, pre(), vec![]), c(Lits::Treeless { lits: hl.clone(), streams: 1, size_format: 0 }, 1, pre(), vec![])]);
    let wd = vec![0i16, 8, 8, 8, 8];
    add("huff fse-weights", h.clone(), vec![c(Lits::Huff { lits: hl.clone(), weights: w.clone(), desc: WDesc::Fse(wd, 5), streams: 1, size_format: 0 }, 1, pre(), vec![])]);
    let mut blocks = vec![Block::Raw(b"abcd".to_vec())];
    blocks.push(c(Lits::Raw(vec![], 0), 3, [Mode::Rle(0), Mode::Rle(0), Mode::Rle(0)], vec![Seq { ll: 0, ml: 3, of: 1 }; 0x7F00]));
    add("0x7F00 seqs 3-byte count all RLE", hbig(0x40), blocks);
    add("single segment 2-byte fcs", Header { window_desc: None, fcs: Some((2, 300)), ..Default::default() }, vec![Block::Rle(b'q', 300)]);
    add("single segment 1-byte fcs", Header { window_desc: None, fcs: Some((1, 5)), checksum: true, ..Default::default() }, vec![Block::Raw(b"12345".to_vec())]);
    add("8-byte fcs with window", Header { window_desc: Some(8), fcs: Some((8, 5)), ..Default::default() }, vec![Block::Raw(b"12345".to_vec())]);
    v
}

pub fn main() -> i32 {
    let mut bad = 0;
    for (name, spec) in cases() {
        let Some((frame, want)) = realize(&spec, None) else {
            println!("{name:40} NOT REPRESENTABLE");
            bad += 1;
            continue;
        };
        let r = refz::decode(&frame);
        let mut dec = ruzstd::decoding::FrameDecoder::new();
        let mut o = Vec::with_capacity(want.len() + 16);
        let ro = dec.decode_all_to_vec(&frame, &mut o).map(|_| o);
        let wk = zmodel::walker::walk(&frame, None);
        let f = |r: &Result<Vec<u8>, String>| match r {
            Ok(v) if *v == want => "OK".to_string(),
            Ok(v) => format!("DIFF({})", v.len()),
            Err(e) => format!("ERR({e})"),
        };
        let rs = f(&r);
        let os = f(&ro.map_err(|e| e.to_string()));
        let ws = f(&wk.map(|w| w.plaintext));
        if rs != "OK" || os != "OK" || ws != "OK" {
            bad += 1;
        }
        println!("{name:40} frame={:6} plain={:7} libzstd={rs} ruzstd={os} walker={ws}", frame.len(), want.len());
    }
    // libzstd output through the walker
    let mut data = vec![];
    for i in 0..40000u32 {
        data.extend_from_slice(format!("line {} of some text, {}\n", i % 977, i * 7 % 13).as_bytes());
    }
    for level in [-5, 1, 3, 9, 19] {
        for (cs, ck) in [(false, false), (true, true)] {
            let p = refz::CParams { level, checksum: ck, content_size: cs, ..Default::default() };
            let f = refz::compress(&data, &p, None).unwrap();
            match zmodel::walker::walk(&f, None) {
                Ok(w) if w.plaintext == data && w.consumed == f.len() => println!("libzstd level {level:3} frame={} blocks={} walker=OK", f.len(), w.blocks.len()),
                Ok(w) => {
                    bad += 1;
                    println!("libzstd level {level} walker DIFF {} consumed {}/{}", w.plaintext.len(), w.consumed, f.len())
                }
                Err(e) => {
                    bad += 1;
                    println!("libzstd level {level} walker ERR {e}")
                }
            }
        }
    }
    if bad > 0 {
        println!("selftest: {bad} disagreements");
        2
    } else {
        println!("selftest ok");
        0
    }
}

pub fn dbg_lattice() {
    use zmodel::frame::*;
    let d = crate::gen::model_dict(77);
    let raw = d.serialize().unwrap();
    for (p, ll, r, ml) in [(0usize, 0usize, 65usize, 3usize), (0, 0, 64, 3), (0, 0, 66, 3), (0, 0, 100, 3), (3, 2, 65, 5), (0, 0, 1000, 3)] {
        let mut blocks = vec![];
        if p > 0 {
            blocks.push(Block::Raw((0..p).map(|i| 0xA0 + i as u8).collect()));
        }
        let off = p + ll + r;
        blocks.push(Block::Compressed { lits: Lits::Raw((0..ll + 1).map(|i| 0x10 + i as u8).collect(), 0), count_form: 1, modes: pre(), seqs: vec![Seq { ll: ll as u32, ml: ml as u32, of: 3 + off as u32 }], pick: 0 });
        let header = Header { window_desc: Some(0), dict_id: Some((1, d.id)), ..Default::default() };
        let mut st = EncState::from_dict(&d);
        let body = encode_blocks(&blocks, &mut st).unwrap();
        let mut frame = encode_header(&header).unwrap();
        frame.extend(body);
        println!("{:?} frame {} -> libzstd {:?}", (p, ll, r, ml), crate::ev::hex(&frame), crate::refz::decode_with_dict(&frame, &raw).map(|v| crate::ev::hex(&v)));
    }
    println!("dict content {}", crate::ev::hex(&d.content));
}

pub fn dbg_huff() {
    use crate::cmp::near_uniform;
    const B: usize = 128 * 1024;
    for k in [200usize, 250, 254, 255, 256] {
        for boost in [0usize, 50, 500, 5000] {
            for m in [0usize, 1] {
                let v = near_uniform(B, k, boost, m, 11);
                let (sec, t) = ruzstd::verif::compress_literals(&v, None);
                let frame = ruzstd::encoding::compress_to_vec(v.as_slice(), ruzstd::encoding::CompressionLevel::Fastest);
                let w = zmodel::walker::walk(&frame, None);
                println!("k={k} boost={boost} m={m}: literals section type {} len {} (raw {}), table {}; block decisions {:?} frame {}", sec[0] & 3, sec.len(), v.len() + 3, t.is_some(), w.map(|w| w.blocks.iter().map(|b| (crate::cmp::decision(b), b.stored, b.lits_regen, b.n_seqs)).collect::<Vec<_>>()), frame.len());
            }
        }
    }
}
