//! C15 — compressor output is structurally valid and never larger than raw framing: C02's executions judged by
//! the strict walker and the size formula.
use crate::ev::{Run, Tier};
use serde_json::{json, Value};

pub fn main(tier: Tier, replay: Option<Value>) -> i32 {
    if replay.is_some() {
        println!("C15 replays are case descriptions; rerun ./check C15");
        return 2;
    }
    let mut run = Run::new("C15", "exploration", tier);
    crate::c02::run_all(&mut run, tier, "C15");
    run.set("exhaustive", false);
    run.set("rule", "the executions of C02 (small scope, threshold families, block decision automaton, reuse histories) judged by zmodel's strict walker (magic, header fields consistent, every block <= 128 KiB stored and regenerated, exactly one last block, every offset within the declared window and the data produced, section sizes consistent, every bit stream consumed exactly, treeless / repeat only after a definition, nothing after the last block but the checksum, checksum correct) and by len(frame) <= len(input) + 6 + 3*max(1, ceil(len/128 KiB)) + 3 + 4");
    run.sample(json!({"case": "incompressible input of exactly 262144 bytes", "bound": 262144 + 6 + 6 + 3 + 4}));
    run.assume("the walker is bound to libzstd: it accepts every frame of the libzstd matrices of C01/C09 and its plaintexts equal libzstd's");
    run.finish()
}
