//! C13 — Huffman tables are valid and literal coding round-trips for every distribution.
use crate::c12::{merge, Acc};
use crate::ev::{hex, show, Run, Tier};
use crate::meter::{self, guarded};
use crate::refz;
use ruzstd::huff0::huff0_encoder::{verif as hv, HuffmanTable as EncTable};
use ruzstd::huff0::HuffmanTable as DecTable;
use ruzstd::verif as rz;
use serde_json::{json, Value};
use zmodel::huf;

fn perm(n: usize, seed: u64) -> Vec<usize> {
    let mut v: Vec<usize> = (0..n).collect();
    let mut s = seed.wrapping_mul(0x9E3779B97F4A7C15) | 1;
    for i in (1..n).rev() {
        s ^= s << 13;
        s ^= s >> 7;
        s ^= s << 17;
        v.swap(i, (s % (i as u64 + 1)) as usize);
    }
    v
}

/// symbol values for k used symbols under a placement
fn placement(k: usize, which: usize) -> Option<Vec<u8>> {
    match which {
        0 => Some((0..k).map(|i| i as u8).collect()),
        1 => Some((256 - k..256).map(|i| i as u8).collect()),
        2 => {
            if 2 * k - 1 <= 256 {
                Some((0..k).map(|i| (2 * i) as u8).collect())
            } else {
                None
            }
        }
        // a hole after the first symbol / before the last symbol
        3 => {
            if k < 256 && k >= 2 {
                Some((0..k).map(|i| if i == 0 { 0 } else { i as u8 + 1 }).collect())
            } else {
                None
            }
        }
        _ => {
            if k < 256 && k >= 2 {
                Some((0..k).map(|i| if i + 1 == k { i as u8 + 1 } else { i as u8 }).collect())
            } else {
                None
            }
        }
    }
}

/// one histogram: (symbol, count) for used symbols. Everything the property says about the encoder's table.
pub fn encoder_case(a: &mut Acc, hist: &[(u8, usize)], tag: &str) {
    a.evals += 1;
    a.nontrivial += 1;
    let k = hist.len();
    let rp = json!({"case": "encoder", "histogram": hist});
    let max_sym = hist.iter().map(|h| h.0).max().unwrap() as usize;
    let mut counts = vec![0usize; max_sym + 1];
    for &(s, c) in hist {
        counts[s as usize] = c;
    }
    let t = match guarded(|| EncTable::build_from_counts(&counts)) {
        Ok(t) => t,
        Err(p) => {
            a.bad(format!("encoder:build_panic:{tag}"), format!("build_from_counts for {k} used symbols panicked: {p}"), rp);
            return;
        }
    };
    let codes = hv::codes(&t);
    // complete prefix code of depth <= 11 over exactly the used symbols
    let mut kraft: u64 = 0;
    for (s, &(_, nb)) in codes.iter().enumerate() {
        let used = counts.get(s).copied().unwrap_or(0) > 0;
        if used != (nb > 0) {
            a.bad(format!("encoder:support:{tag}"), format!("{k} used symbols: symbol {s} used={used} but code length {nb}"), rp);
            return;
        }
        if nb > 11 {
            a.bad(format!("encoder:depth:{tag}"), format!("{k} used symbols: symbol {s} has a {nb}-bit code (limit 11)"), rp);
            return;
        }
        if nb > 0 {
            kraft += 1u64 << (11 - nb);
        }
    }
    if kraft != 1 << 11 {
        a.bad(format!("encoder:kraft:{tag}"), format!("{k} used symbols: Kraft sum {kraft}/2048, the code is not complete"), rp);
        return;
    }
    let mut cs: Vec<(u32, u8)> = codes.iter().copied().filter(|c| c.1 > 0).collect();
    cs.sort_by_key(|c| (c.1, c.0));
    for i in 0..cs.len() {
        for j in i + 1..cs.len() {
            if cs[j].0 >> (cs[j].1 - cs[i].1) == cs[i].0 {
                a.bad(format!("encoder:prefix:{tag}"), format!("{k} used symbols: code {:b}/{} is a prefix of {:b}/{}", cs[i].0, cs[i].1, cs[j].0, cs[j].1), rp);
                return;
            }
        }
    }
    // more frequent symbols never get longer codes
    for &(s1, c1) in hist {
        for &(s2, c2) in hist {
            if c1 > c2 && codes[s1 as usize].1 > codes[s2 as usize].1 {
                a.bad(format!("encoder:rank:{tag}"), format!("symbol {s1} (count {c1}) has a longer code than symbol {s2} (count {c2})"), rp);
                return;
            }
        }
    }
    // table description + one stream of a literal string that uses every symbol
    let lits: Vec<u8> = hist.iter().map(|h| h.0).chain(hist.iter().rev().map(|h| h.0)).collect();
    let enc = match guarded(|| hv::encode(&t, &lits, true, false)) {
        Ok(e) => e,
        Err(p) => {
            a.bad(format!("encoder:describe_panic:{tag}"), format!("writing the table description for {k} used symbols panicked: {p}"), rp);
            return;
        }
    };
    let (head, used) = match huf::parse_description(&enc) {
        Ok(x) => x,
        Err(e) => {
            a.bad(format!("encoder:description_unreadable:{tag}"), format!("{k} used symbols: the specification cannot read the description {}: {e}", show(&enc)), rp);
            return;
        }
    };
    let direct = enc[0] >= 128;
    if direct != (max_sym <= 16) || (!direct && enc[0] as usize >= 128) {
        a.bad(format!("encoder:description_form:{tag}"), format!("{} weights written in the {} form", max_sym, if direct { "direct" } else { "FSE" }), rp);
        return;
    }
    let Some(w) = huf::complete(&head) else {
        a.bad(format!("encoder:description_invalid:{tag}"), format!("{k} used symbols: described weights {head:?} do not form a complete code"), rp);
        return;
    };
    let (_, lens) = huf::lengths_from_weights(&w).unwrap();
    let enc_lens: Vec<u8> = codes.iter().map(|c| c.1).collect();
    if lens != enc_lens {
        a.bad(format!("encoder:description_lengths:{tag}"), format!("{k} used symbols: the description yields code lengths {lens:?}, the encoder uses {enc_lens:?}"), rp);
        return;
    }
    // canonical codes as the specification assigns them must be the encoder's codes
    let spec_codes = huf::codes(&w);
    for (s, (&(c, n), &(sc, sn))) in codes.iter().zip(spec_codes.iter()).enumerate() {
        if n != sn || (n > 0 && c != sc as u32) {
            a.bad(format!("encoder:codes:{tag}"), format!("symbol {s}: encoder code {c:b}/{n}, canonical code {sc:b}/{sn}"), rp);
            return;
        }
    }
    match huf::decode_stream(&w, &enc[used..], lits.len()) {
        Ok(d) if d == lits => {}
        other => {
            a.bad(format!("encoder:stream1:{tag}"), format!("{k} used symbols: single stream does not decode back: {:?}", other.map(|v| v.len())), rp);
            return;
        }
    }
    // the crate's decoder reads the description into the same table
    let mut dt = DecTable::new();
    match guarded(|| dt.build_decoder(&enc)) {
        Ok(Ok(n)) if n as usize == used => {
            let (mb, want) = huf::decode_table(&w).unwrap();
            if dt.max_num_bits != mb || dt.verif_entries() != want {
                a.bad(format!("encoder:decoder_table:{tag}"), format!("{k} used symbols: the crate's decoder builds a different table from the encoder's description"), rp);
            }
        }
        other => a.bad(format!("encoder:decoder_reads:{tag}"), format!("{k} used symbols: the crate's decoder on the encoder's description ({} bytes): {:?}", used, other.map(|r| r.map_err(|e| format!("{e:?}")))), rp),
    }
}

/// literal strings through the one- and four-stream coders, decoded with the specification
fn stream_case(a: &mut Acc, hist: &[(u8, usize)], len: usize, tag: &str) {
    a.evals += 1;
    let rp = json!({"case": "streams", "histogram": hist, "len": len});
    let max_sym = hist.iter().map(|h| h.0).max().unwrap() as usize;
    let mut counts = vec![0usize; max_sym + 1];
    for &(s, c) in hist {
        counts[s as usize] = c;
    }
    let Ok(t) = guarded(|| EncTable::build_from_counts(&counts)) else { return };
    let lits: Vec<u8> = (0..len).map(|i| hist[(i * 7 + i / hist.len()) % hist.len()].0).collect();
    let codes = hv::codes(&t);
    let w: Vec<u8> = {
        let max = codes.iter().map(|c| c.1).max().unwrap();
        codes.iter().map(|c| if c.1 == 0 { 0 } else { max + 1 - c.1 }).collect()
    };
    a.nontrivial += 1;
    for four in [false, true] {
        if four && len < 6 {
            // the literals encoder uses four streams only from 6 literals on (size format rule)
            continue;
        }
        let enc = match guarded(|| hv::encode(&t, &lits, false, four)) {
            Ok(e) => e,
            Err(p) => {
                a.bad(format!("streams:panic:{tag}"), format!("encoding {len} literals in {} stream(s) panicked: {p}", if four { 4 } else { 1 }), rp);
                return;
            }
        };
        let ok = if !four {
            huf::decode_stream(&w, &enc, len).map(|d| d == lits)
        } else {
            (|| {
                if enc.len() < 6 {
                    return Err("no jump table".to_string());
                }
                let s: Vec<usize> = (0..3).map(|i| u16::from_le_bytes([enc[2 * i], enc[2 * i + 1]]) as usize).collect();
                let data = &enc[6..];
                if s[0] + s[1] + s[2] > data.len() {
                    return Err("jump table beyond data".to_string());
                }
                let parts = zmodel::frame::four_way(len);
                let b = [0, s[0], s[0] + s[1], s[0] + s[1] + s[2], data.len()];
                let mut out = vec![];
                for i in 0..4 {
                    out.extend(huf::decode_stream(&w, &data[b[i]..b[i + 1]], parts[i]).map_err(|e| format!("stream {}: {e}", i + 1))?);
                }
                Ok(out == lits)
            })()
        };
        if ok != Ok(true) {
            a.bad(format!("streams:roundtrip:{}:{tag}", if four { 4 } else { 1 }), format!("{len} literals over {} symbols in {} stream(s) do not decode back per the specification: {:?}", hist.len(), if four { 4 } else { 1 }, ok), rp);
            return;
        }
    }
}

/// production path: compress_literals -> literals section -> whole frame through walker, libzstd and the crate
fn section_case(a: &mut Acc, hist: &[(u8, usize)], len: usize, tag: &str) {
    a.evals += 1;
    let rp = json!({"case": "section", "histogram": hist, "len": len});
    // a literal string whose histogram follows `hist` proportionally
    let total: usize = hist.iter().map(|h| h.1).sum();
    let mut lits = Vec::with_capacity(len);
    let mut acc = vec![0usize; hist.len()];
    for i in 0..len {
        // largest deficit first: deterministic, proportional
        let mut best = 0;
        let mut best_d = i64::MIN;
        for (j, h) in hist.iter().enumerate() {
            let d = (h.1 as i64) * (i as i64 + 1) - (acc[j] as i64) * total as i64;
            if d > best_d {
                best_d = d;
                best = j;
            }
        }
        acc[best] += 1;
        lits.push(hist[best].0);
    }
    let (section, table) = match guarded(|| rz::compress_literals(&lits, None)) {
        Ok(x) => x,
        Err(p) => {
            a.bad(format!("section:panic:{tag}"), format!("compress_literals({len} literals over {} symbols) panicked: {p}", hist.len()), rp);
            return;
        }
    };
    let ty = section[0] & 3;
    if ty == 2 {
        a.nontrivial += 1;
        a.extra[0] += 1;
        if table.is_none() {
            a.bad(format!("section:no_table:{tag}"), "compress_literals wrote a Huffman section but returned no table".into(), rp);
            return;
        }
    } else {
        a.extra[1] += 1;
    }
    let mut body = section.clone();
    body.push(0); // no sequences
    if body.len() > zmodel::tables::MAX_BLOCK {
        return;
    }
    let mut frame = zmodel::frame::encode_header(&zmodel::frame::Header::window(0x38, false)).unwrap();
    frame.extend(&((body.len() as u32) << 3 | 2 << 1 | 1).to_le_bytes()[..3]);
    frame.extend(&body);
    match zmodel::walker::walk(&frame, None) {
        Ok(w) if w.plaintext == lits => {}
        other => {
            a.bad(format!("section:spec:{tag}"), format!("literals section for {len} literals over {} symbols (type {ty}, {} bytes) is not valid per the specification: {:?}", hist.len(), section.len(), other.map(|w| w.plaintext.len())), rp);
            return;
        }
    }
    match refz::decode(&frame) {
        Ok(p) if p == lits => a.extra[2] += 1,
        other => {
            a.bad(format!("section:libzstd:{tag}"), format!("libzstd does not decode the literals section for {len} literals over {} symbols: {:?}", hist.len(), other.map(|v| v.len())), rp);
            return;
        }
    }
    let mut dec = ruzstd::decoding::FrameDecoder::new();
    let mut out = Vec::with_capacity(len + 8);
    match guarded(|| dec.decode_all_to_vec(&frame, &mut out)) {
        Ok(Ok(())) if out == lits => {}
        other => a.bad(format!("section:crate:{tag}"), format!("the crate's decoder does not decode its own literals section ({len} literals, {} symbols): {:?}", hist.len(), other.map(|r| r.map_err(|e| e.to_string()))), rp),
    }
}

fn encoder(run: &mut Run, tier: Tier) {
    let th = meter::threads();
    let mut cases: Vec<(Vec<(u8, usize)>, String)> = vec![];
    for k in 2..=256usize {
        for pl in 0..5 {
            let Some(syms) = placement(k, pl) else { continue };
            let mut orders: Vec<Vec<usize>> = vec![(0..k).map(|i| i + 1).collect(), (0..k).map(|i| k - i).collect(), vec![5; k], (0..k).map(|i| 1usize << (i % 20)).collect(), (0..k).map(|i| if i == 0 { 100_000 } else { 1 }).collect()];
            for seed in 1..=3u64 {
                let p = perm(k, seed * 1000 + k as u64);
                orders.push(p.iter().map(|&r| r + 1).collect());
            }
            for o in orders {
                cases.push((syms.iter().copied().zip(o).collect(), format!("k{}", if k <= 17 { k.to_string() } else { "18+".into() })));
            }
        }
    }
    // all rank permutations for up to 6 symbols (7 in thorough)
    for k in 2..=tier.pick(7usize, 8) {
        let mut p: Vec<usize> = (0..k).collect();
        // Heap's algorithm, iterative
        let mut c = vec![0usize; k];
        let push = |p: &Vec<usize>, cases: &mut Vec<(Vec<(u8, usize)>, String)>| cases.push((p.iter().enumerate().map(|(s, &r)| (s as u8 * 3, r + 1)).collect(), format!("perm{k}")));
        push(&p, &mut cases);
        let mut i = 0;
        while i < k {
            if c[i] < i {
                if i % 2 == 0 {
                    p.swap(0, i);
                } else {
                    p.swap(c[i], i);
                }
                push(&p, &mut cases);
                c[i] += 1;
                i = 0;
            } else {
                c[i] = 0;
                i += 1;
            }
        }
    }
    let accs = meter::par_fold(cases.len(), th, Acc::default, |a, i| encoder_case(a, &cases[i].0, &cases[i].1));
    merge(run, "C13", "encoder_tables_every_symbol_count_placement_rank_order", accs, false);
    run.set("encoder_symbol_counts", "2..=256 complete");

    // streams: every length 1..=9 and 1021..=1031 for a spread of alphabets
    let alph: Vec<Vec<(u8, usize)>> = [2usize, 3, 4, 5, 7, 16, 17, 18, 64, 128, 255, 256].iter().map(|&k| (0..k).map(|i| (i as u8, 1 + (i * 37) % 11)).collect()).collect();
    let mut sc: Vec<(usize, usize)> = vec![];
    for ai in 0..alph.len() {
        for len in (1..=12).chain(1021..=1031).chain([4095, 4096, 4097, 16383, 16384, 16385]) {
            sc.push((ai, len));
        }
    }
    let accs = meter::par_fold(sc.len(), th, Acc::default, |a, i| stream_case(a, &alph[sc[i].0], sc[i].1, &format!("k{}", alph[sc[i].0].len())));
    merge(run, "C13", "streams_1_and_4_every_split_remainder", accs, false);

    // production literals path
    let mut pc: Vec<(Vec<(u8, usize)>, usize)> = vec![];
    let ks: Vec<usize> = (2..=256).collect();
    for &k in &ks {
        for skew in 0..3 {
            let hist: Vec<(u8, usize)> = (0..k).map(|i| (i as u8, match skew { 0 => 1, 1 => 1 + i, _ => 1usize << (i % 12) })).collect();
            for len in [1025usize, 1026, 1027, 1028, 2000, 16383, 16384, 16385, 40000, 131071] {
                pc.push((hist.clone(), len));
            }
        }
    }
    let accs = meter::par_fold(pc.len(), th, Acc::default, |a, i| section_case(a, &pc[i].0, pc[i].1, &format!("k{}", if pc[i].0.len() <= 17 { pc[i].0.len().to_string() } else { "18+".into() })));
    let x = merge(run, "C13", "compress_literals_sections_as_frames", accs, false);
    run.set("sections_huffman", x[0]);
    run.set("sections_fell_back_to_raw", x[1]);
    run.set("reference_frames_validated", x[2]);
}

pub fn decoder_case(a: &mut Acc, head: &[u8]) {
    a.evals += 1;
    let desc = huf::describe_direct(head);
    let rp = json!({"case": "decoder", "weights": head});
    let want = huf::complete(head);
    let mut src = desc.clone();
    src.extend_from_slice(&[0xEE; 2]);
    let mut t = DecTable::new();
    match (want, guarded(|| t.build_decoder(&src))) {
        (_, Err(p)) => a.bad("decoder:panic".into(), format!("build_decoder(direct weights {head:?}) panicked: {p}"), rp),
        (Some(w), Ok(Ok(n))) => {
            a.nontrivial += 1;
            let (mb, tab) = huf::decode_table(&w).unwrap();
            if n as usize != desc.len() {
                a.bad("decoder:length".into(), format!("build_decoder(direct weights {head:?}) consumed {n} bytes, the description has {}", desc.len()), rp);
            } else if t.max_num_bits != mb || t.verif_entries() != tab {
                let first = t.verif_entries().iter().zip(tab.iter()).position(|(x, y)| x != y);
                a.bad("decoder:table".into(), format!("weights {head:?} (+{}): decoder table differs from the canonical one at entry {first:?} (max bits {} vs {mb})", w.last().unwrap(), t.max_num_bits), rp);
            }
        }
        (None, Ok(Err(_))) => {}
        (Some(w), Ok(Err(e))) => a.bad("decoder:refused".into(), format!("build_decoder refused the valid weights {head:?} (+{}): {e:?}", w.last().unwrap()), rp),
        (None, Ok(Ok(_))) => a.bad("decoder:accepted".into(), format!("build_decoder accepted weights {head:?}, which cannot form a complete code of depth <= 11 (max bits {})", t.max_num_bits), rp),
    }
}

fn decoder(run: &mut Run, tier: Tier) {
    let th = meter::threads();
    let n = tier.pick(6u32, 7);
    for len in 1..=n {
        let total = 16usize.pow(len);
        let accs = meter::par_fold(total, th, Acc::default, |a, mut i| {
            let head: Vec<u8> = (0..len)
                .map(|_| {
                    let w = (i % 16) as u8;
                    i /= 16;
                    w
                })
                .collect();
            decoder_case(a, &head);
        });
        merge(run, "C13", &format!("decoder_all_direct_weight_vectors_len{len}"), accs, true);
    }
    // shaped vectors of every length 1..=128
    let mut cases: Vec<Vec<u8>> = vec![];
    for len in 1..=128usize {
        cases.push(vec![1; len]);
        cases.push(vec![2; len]);
        cases.push((0..len).map(|i| (i % 12) as u8).collect());
        cases.push((0..len).map(|i| if i == 0 { 11 } else { 0 }).collect());
        cases.push((0..len).map(|i| if i + 1 == len { 1 } else { 0 }).collect());
        // a valid complete code: from the model's own shape (weights 1,1,2,3,...)
        let mut v: Vec<u8> = vec![1];
        let mut w = 1u8;
        while v.len() < len {
            v.push(w.min(11));
            if w < 11 {
                w += 1;
            }
        }
        cases.push(v);
        // many ones with a few larger weights
        cases.push((0..len).map(|i| if i % 9 == 8 { 4 } else { 1 }).collect());
    }
    // listed weights summing to exactly 2^k (k = 1..=12), one unit below and one above, in every shape reached by
    // splitting the smallest splittable weight again and again: the depth limit sits at k = 11 (an implied last
    // weight of 12), which the short complete vectors above reach only through [11, 11] and its permutations
    for k in 1..=12u8 {
        let mut v: Vec<u8> = vec![k, k];
        while v.len() <= 128 {
            for order in 0..3 {
                let mut w = v.clone();
                match order {
                    1 => w.reverse(),
                    2 => w = perm(w.len(), k as u64).into_iter().map(|i| v[i]).collect(),
                    _ => {}
                }
                cases.push(w.clone());
                let mut plus = w.clone();
                plus.push(1);
                cases.push(plus);
                if let Some(p) = w.iter().position(|&x| x == 1) {
                    w.remove(p);
                    cases.push(w);
                }
            }
            // split the last weight that is > 1 into two of weight - 1
            match v.iter().rposition(|&x| x > 1) {
                Some(p) => {
                    v[p] -= 1;
                    let x = v[p];
                    v.insert(p, x);
                }
                None => break,
            }
        }
    }
    cases.retain(|c| !c.is_empty() && c.len() <= 128);
    let accs = meter::par_fold(cases.len(), th, Acc::default, |a, i| decoder_case(a, &cases[i]));
    merge(run, "C13", "decoder_shaped_weight_vectors_len_1_to_128", accs, false);

    // FSE-compressed descriptions can name weights a direct description (4 bits) cannot: every weight value
    // 0..=255 is a symbol of the weights' FSE table. Weight vectors containing one weight X in {12..=255} (valid
    // FSE coding, invalid Huffman weights) at three positions, and the valid neighbours X <= 11 as control: the
    // decoder must refuse X > 11 with an error - no panic, no shift overflow - and build the canonical table otherwise
    let mut fcases: Vec<(Vec<u8>, Vec<i16>)> = vec![];
    for x in (1..=20u16).chain([31, 32, 33, 34, 40, 63, 64, 65, 100, 127, 128, 200, 254, 255]) {
        for shape in 0..3 {
            let xw = x as u8;
            let head: Vec<u8> = match shape {
                0 => vec![1, 1, 2, xw],
                1 => vec![xw, 2, 1, 1],
                _ => vec![1, xw, 1, 2, 2, 1, 1, 1],
            };
            // distribution over weight values: log 6, every used value gets a share
            let mut dist = vec![0i16; (x as usize).max(2) + 1];
            dist[1] = 30;
            dist[2] = 16;
            dist[x as usize] += 18;
            fcases.push((head, dist));
        }
    }
    let accs = meter::par_fold(fcases.len(), th, Acc::default, |a, i| {
        let (head, dist) = &fcases[i];
        a.evals += 1;
        let Some(desc) = huf::describe_fse(head, dist, 6) else {
            a.extra[3] += 1; // not expressible with this table (counted)
            return;
        };
        let rp = json!({"case": "decoder_fse_described", "weights": head});
        let want = huf::complete(head);
        let mut src = desc.clone();
        src.extend_from_slice(&[0xEE; 2]);
        let mut t = DecTable::new();
        match (want, guarded(|| t.build_decoder(&src))) {
            (_, Err(p)) => a.bad("decoder:fse_described:panic".into(), format!("build_decoder(FSE-described weights {head:?}) panicked: {p}"), rp),
            (Some(w), Ok(Ok(n))) => {
                a.nontrivial += 1;
                let (mb, tab) = huf::decode_table(&w).unwrap();
                if n as usize != desc.len() || t.max_num_bits != mb || t.verif_entries() != tab {
                    a.bad("decoder:fse_described:table".into(), format!("FSE-described weights {head:?}: {n} bytes used of {}, max bits {} (canonical {mb}), table equal: {}", desc.len(), t.max_num_bits, t.verif_entries() == tab), rp);
                }
            }
            (None, Ok(Err(_))) => a.nontrivial += 1,
            (Some(_), Ok(Err(e))) => a.bad("decoder:fse_described:refused".into(), format!("build_decoder refused the valid FSE-described weights {head:?}: {e:?}"), rp),
            (None, Ok(Ok(_))) => a.bad("decoder:fse_described:accepted".into(), format!("build_decoder accepted FSE-described weights {head:?}, which cannot form a complete code of depth <= 11 (max bits {})", t.max_num_bits), rp),
        }
    });
    let x = merge(run, "C13", "decoder_fse_described_weights_incl_values_above_11", accs, false);
    run.set("fse_described_weight_vectors_not_expressible", x[3]);
}

pub fn main(tier: Tier, replay: Option<Value>) -> i32 {
    if let Some(r) = replay {
        return do_replay(&r["replay"]);
    }
    let mut run = Run::new("C13", "exploration", tier);
    encoder(&mut run, tier);
    decoder(&mut run, tier);
    // literal coding with a *reused* table (treeless sections): which table may be reused for which literals is
    // decided in compress_literals; every ordered pair of small alphabets x frequency profiles as consecutive
    // literal-only blocks (family shared with C16)
    crate::c16::table_reuse(&mut run, tier, "C13");
    run.set("exhaustive", false);
    run.set("rule", "encoder: every number of used symbols 2..=256 x 5 placements x 8 rank orders (+ every rank permutation up to 7/8 symbols): complete prefix code, depth <= 11, monotone in frequency, description form, description parsed by the specification and by the crate's decoder into the same lengths / canonical table, one- and four-stream coding of strings of every length 1..=12 and 1021..=1031 and around 4096/16384 decoded by the specification, compress_literals output wrapped in a frame and decoded by the walker, libzstd and the crate; table reuse (treeless sections) for every ordered pair of alphabets that are subsets of 5/6 byte values x 9 frequency-profile pairs as three consecutive literal-only blocks. decoder: FSE-described weight vectors containing weight values up to 255 (valid FSE coding, invalid Huffman weights above 11) must be refused without panicking; every direct weight vector of <= 6/7 weights over 0..=15 and shaped vectors of every length 1..=128: accept <=> the weights complete to a power of two with depth <= 11, table equal to the canonical one entry by entry. non-trivial = valid table / Huffman section actually produced");
    run.sample(json!({"case": "encoder", "histogram": [[0, 3], [3, 1], [6, 2], [9, 6], [12, 4], [15, 5]]}));
    run.sample(json!({"case": "decoder", "weights": [4, 3, 2, 0, 1]}));
    run.sample(json!({"case": "section", "histogram": "17 symbols, counts 1..=17", "len": 1027}));
    run.assume("zmodel::huf is a correct transcription of RFC 8878 section 4.2 (bound to libzstd by the frames here and in C01)");
    run.finish()
}

fn do_replay(r: &Value) -> i32 {
    let mut res = vec![];
    for _ in 0..2 {
        let mut a = Acc::default();
        let hist = || -> Vec<(u8, usize)> { r["histogram"].as_array().unwrap().iter().map(|x| (x[0].as_u64().unwrap() as u8, x[1].as_u64().unwrap() as usize)).collect() };
        match r["case"].as_str().unwrap_or("") {
            "encoder" => encoder_case(&mut a, &hist(), "replay"),
            "streams" => stream_case(&mut a, &hist(), r["len"].as_u64().unwrap() as usize, "replay"),
            "section" => section_case(&mut a, &hist(), r["len"].as_u64().unwrap() as usize, "replay"),
            "decoder" => {
                let w: Vec<u8> = r["weights"].as_array().unwrap().iter().map(|x| x.as_u64().unwrap() as u8).collect();
                decoder_case(&mut a, &w);
            }
            _ => return 2,
        }
        res.push(a.viol.first().map(|v| v.what.clone()));
    }
    println!("replay run 1: {:?}\nreplay run 2: {:?}", res[0], res[1]);
    if res[0] != res[1] {
        return 2;
    }
    if res[0].is_some() {
        println!("VIOLATION property=C13 replay=(given file)");
        1
    } else {
        0
    }
}

#[allow(dead_code)]
fn unused(_: &[u8]) -> String {
    hex(&[])
}
