//! C11 — frames declaring a window above the configured limit are rejected up front. Finite domain swept
//! completely: all window descriptors and single-segment sizes x boundary limits x history position x front end.
use crate::c12::{merge, Acc};
use crate::ev::{hex, Run, Tier};
use crate::meter::{self, guarded};
use ruzstd::decoding::errors::FrameDecoderError;
use ruzstd::decoding::{FrameDecoder, StreamingDecoder, DEFAULT_MAX_WINDOW_SIZE};
use serde_json::{json, Value};
use zmodel::tables::{window_of_descriptor, WINDOW_MAX};

pub const FRONTS: [&str; 8] = ["reset", "init", "decode_all", "decode_all_to_vec", "decode_from_to", "StreamingDecoder::new", "StreamingDecoder::new_with_max_window_size", "StreamingDecoder::new_with_decoder"];
pub const POSITIONS: [&str; 5] = ["first frame", "after a completed frame", "after a failed frame", "after a rejected frame", "after a completed frame with an 8 MiB window"];

#[derive(Clone, Debug)]
struct Win {
    name: String,
    header: Vec<u8>,
    window: u64,
}

fn windows() -> Vec<Win> {
    let mut v = vec![];
    for d in 0..=255u8 {
        v.push(Win { name: format!("descriptor {d:#04x}"), header: vec![0x28, 0xB5, 0x2F, 0xFD, 0x00, d], window: window_of_descriptor(d) });
    }
    let mut ss = |w: u8, val: u64| {
        let flag = match w {
            1 => 0u8,
            2 => 1,
            4 => 2,
            _ => 3,
        };
        let mut h = vec![0x28, 0xB5, 0x2F, 0xFD, 0x20 | flag << 6];
        let stored = if w == 2 { val - 256 } else { val };
        h.extend_from_slice(&stored.to_le_bytes()[..w as usize]);
        v.push(Win { name: format!("single segment, {w}-byte size {val}"), header: h, window: val });
    };
    for val in [0u64, 1, 255] {
        ss(1, val);
    }
    for val in [256u64, 1023, 1024, 1025, 65535, 65791] {
        ss(2, val);
    }
    let d = DEFAULT_MAX_WINDOW_SIZE;
    for val in [0u64, 1024, 65792, d - 1, d, d + 1, u32::MAX as u64] {
        ss(4, val);
    }
    for val in [0u64, 1024, d, d + 1, 1 << 32, WINDOW_MAX - 1, WINDOW_MAX, WINDOW_MAX + 1, 1 << 63, u64::MAX] {
        ss(8, val);
    }
    v
}

fn small_frame() -> Vec<u8> {
    vec![0x28, 0xB5, 0x2F, 0xFD, 0x00, 0x00, 0x19, 0x00, 0x00, b'a', b'b', b'c']
}
/// the largest window the default limit accepts: a caller may lower the limit afterwards
fn wide_frame() -> Vec<u8> {
    vec![0x28, 0xB5, 0x2F, 0xFD, 0x00, 0x68, 0x19, 0x00, 0x00, b'a', b'b', b'c']
}
fn corrupt_frame() -> Vec<u8> {
    vec![0x28, 0xB5, 0x2F, 0xFD, 0x00, 0x00, 0x07, 0x00, 0x00]
}
fn oversize_frame() -> Vec<u8> {
    vec![0x28, 0xB5, 0x2F, 0xFD, 0x00, 0xF8, 0x01, 0x00, 0x00]
}

#[derive(Debug, PartialEq)]
enum Out {
    Accepted,
    /// accepted by the limit check; the harness then refused the window-sized allocation
    AcceptedAllocRefused,
    Rejected { requested: u64, max: u64 },
    OtherError(String),
}

fn classify(e: &FrameDecoderError) -> Out {
    match e {
        FrameDecoderError::WindowSizeTooBig { requested, max } => Out::Rejected { requested: *requested, max: *max },
        other => Out::OtherError(crate::ev::truncate(&format!("{other:?}"), 100)),
    }
}

fn one(a: &mut Acc, w: &Win, limit: Option<u64>, pos: usize, front: usize) {
    a.evals += 1;
    let mut frame = w.header.clone();
    frame.extend_from_slice(&[0x01, 0x00, 0x00]); // empty raw last block
    let rp = json!({"window": w.name, "declared": w.window, "limit": limit, "position": POSITIONS[pos], "front_end": FRONTS[front], "frame": hex(&frame)});
    let effective = limit.unwrap_or(DEFAULT_MAX_WINDOW_SIZE).min(WINDOW_MAX);
    let want_accept = w.window <= effective;
    meter::refuse_above(1 << 26);
    let m = meter::begin();
    let r = guarded(|| -> Out {
        let mut dec = FrameDecoder::new();
        // history on the same object (with the default limit, like a caller who raises the limit later)
        match pos {
            1 => {
                let mut o = Vec::with_capacity(16);
                let _ = dec.decode_all_to_vec(&small_frame(), &mut o);
            }
            2 => {
                let mut o = Vec::with_capacity(16);
                let _ = dec.decode_all_to_vec(&corrupt_frame(), &mut o);
            }
            3 => {
                let _ = dec.reset(oversize_frame().as_slice());
            }
            4 => {
                let mut o = Vec::with_capacity(16);
                if dec.decode_all_to_vec(&wide_frame(), &mut o).is_err() || o != b"abc" {
                    return Out::OtherError("MODEL: the 8 MiB-window prologue frame did not decode".into());
                }
            }
            _ => {}
        }
        if let Some(l) = limit {
            dec.set_max_window_size(l);
            if dec.max_window_size() != l.min(WINDOW_MAX) {
                return Out::OtherError(format!("max_window_size() = {} after set_max_window_size({l})", dec.max_window_size()));
            }
        }
        let res: Result<(), FrameDecoderError> = match front {
            0 => dec.reset(frame.as_slice()),
            1 => dec.init(frame.as_slice()),
            2 => {
                let mut o = [0u8; 8];
                dec.decode_all(&frame, &mut o).map(|_| ())
            }
            3 => {
                let mut o = Vec::with_capacity(8);
                dec.decode_all_to_vec(&frame, &mut o)
            }
            4 => {
                // decode_from_to initialises only a decoder that has no frame in progress
                let mut d2 = FrameDecoder::new();
                if let Some(l) = limit {
                    d2.set_max_window_size(l);
                }
                let mut o = [0u8; 8];
                d2.decode_from_to(&frame, &mut o).map(|_| ())
            }
            5 => StreamingDecoder::new(frame.as_slice()).map(|_| ()),
            6 => StreamingDecoder::new_with_max_window_size(frame.as_slice(), limit.unwrap_or(DEFAULT_MAX_WINDOW_SIZE)).map(|_| ()),
            _ => StreamingDecoder::new_with_decoder(frame.as_slice(), &mut dec).map(|_| ()),
        };
        match res {
            Ok(()) => Out::Accepted,
            Err(e) => classify(&e),
        }
    });
    let largest = m.largest();
    meter::refuse_above(usize::MAX);
    let out = match r {
        Ok(o) => o,
        Err(p) if p.contains("Allocating new space for the ringbuffer failed") => Out::AcceptedAllocRefused,
        Err(p) => Out::OtherError(format!("panic: {p}")),
    };
    // StreamingDecoder::new always uses the default limit
    let (effective, want_accept) = if front == 5 { (DEFAULT_MAX_WINDOW_SIZE, w.window <= DEFAULT_MAX_WINDOW_SIZE) } else { (effective, want_accept) };
    let id = |kind: &str| format!("{kind}:{}:{}", FRONTS[front], POSITIONS[pos]);
    match (&out, want_accept) {
        (Out::Accepted, true) | (Out::AcceptedAllocRefused, true) => a.nontrivial += 1,
        (Out::Rejected { requested, max }, false) => {
            a.nontrivial += 1;
            if *requested != w.window || *max != effective {
                a.bad(id("error_fields"), format!("[{}] limit {:?}: rejected with requested = {requested}, max = {max}; the frame declares {} and the effective limit is {effective}", w.name, limit, w.window), rp.clone());
            }
            if largest >= 64 << 10 {
                a.bad(id("allocation_before_rejection"), format!("[{}] limit {:?}: a single allocation of {largest} bytes was requested before the frame was rejected", w.name, limit), rp);
            }
        }
        (Out::Accepted, false) | (Out::AcceptedAllocRefused, false) => a.bad(id("accepted_above_limit"), format!("[{}] declares a window of {} which is above the effective limit {effective} (set: {:?}) but {} / {} accepted it{}", w.name, w.window, limit, FRONTS[front], POSITIONS[pos], if out == Out::AcceptedAllocRefused { " and went on to request a window-sized allocation" } else { "" }), rp),
        (Out::Rejected { requested, max }, true) => a.bad(id("rejected_below_limit"), format!("[{}] declares a window of {} which is within the effective limit {effective} (set: {:?}) but was rejected (requested {requested}, max {max})", w.name, w.window, limit), rp),
        (Out::OtherError(e), _) => a.bad(id("other_error"), format!("[{}] limit {:?}, {} / {}: unexpected outcome {e}", w.name, limit, FRONTS[front], POSITIONS[pos]), rp),
    }
}

pub fn main(tier: Tier, replay: Option<Value>) -> i32 {
    if replay.is_some() {
        println!("C11 replays are case descriptions; rerun ./check C11");
        return 2;
    }
    let mut run = Run::new("C11", "exploration", tier);
    let th = meter::threads();
    let ws = windows();
    let mut cases: Vec<(usize, Option<u64>, usize, usize)> = vec![];
    for (wi, w) in ws.iter().enumerate() {
        let mut limits: Vec<Option<u64>> = vec![None, Some(0), Some(1023), Some(1024), Some(DEFAULT_MAX_WINDOW_SIZE), Some(WINDOW_MAX - 1), Some(WINDOW_MAX), Some(WINDOW_MAX + 1), Some(u64::MAX)];
        for d in [-1i128, 0, 1] {
            let l = w.window as i128 + d;
            if l >= 0 && l <= u64::MAX as i128 {
                limits.push(Some(l as u64));
            }
        }
        limits.sort();
        limits.dedup();
        for l in limits {
            for pos in 0..5 {
                for front in 0..8 {
                    if (front == 5 || front == 6 || front == 4) && pos != 0 {
                        continue; // these front ends always start from a new decoder
                    }
                    cases.push((wi, l, pos, front));
                }
            }
        }
    }
    let accs = meter::par_fold(cases.len(), th, Acc::default, |a, i| {
        let (wi, l, pos, front) = cases[i];
        one(a, &ws[wi], l, pos, front);
    });
    merge(&mut run, "C11", "windows_x_limits_x_positions_x_front_ends", accs, true);
    run.set("windows", ws.len() as u64);
    run.set("exhaustive", true);
    run.set("rule", "all 256 window descriptors and 26 single-segment content sizes (every field width at its boundaries, the default limit +-1, the format maximum +-1, 2^63, 2^64-1) x limits {unset, 0, 1023, 1024, default, format max -1/0/+1, 2^64-1, this window -1/0/+1} x position {first frame, after a completed / failed / rejected frame on the same decoder, after a completed frame with an 8 MiB window (so that the limit can be lowered below a window already served)} x 8 front ends. Reference rule: accept <=> window <= min(limit, format maximum); on rejection the error carries requested == declared window and max == effective limit and no single allocation >= 64 KiB was requested before it; an accepted huge window whose window-sized allocation the harness refuses is recorded as accepted. Every case is distinct; non-trivial = outcome agrees with the rule (all cases reach the limit check)");
    run.sample(json!({"window": "descriptor 0x88", "declared": window_of_descriptor(0x88), "limit": window_of_descriptor(0x88) - 1, "position": "after a failed frame", "front_end": "reset", "expected": "WindowSizeTooBig"}));
    run.finish()
}
