//! C17 — the built-in match finder reports only true, in-window matches that tile the block. Every sequence of
//! (commit block, match | skip) operations and resets up to a depth over a scaled-down window, with a 2-letter
//! alphabet chosen so that distinct 5-byte keys collide in the suffix store.
use crate::c12::{merge, Acc};
use crate::ev::{hex, Run, Tier};
use crate::meter::{self, guarded};
use ruzstd::encoding::{CompressionLevel, MatchGeneratorDriver, Matcher, Sequence};
use serde_json::{json, Value};
use std::collections::HashSet;
use std::sync::Mutex;

#[derive(Clone, Debug, PartialEq)]
pub enum Item {
    /// (block, run the matcher on it?)
    Block(Vec<u8>, bool),
    Reset,
}

type Seqs = Vec<(Vec<u8>, usize, usize)>; // (literals, offset, match_len); match_len 0 = trailing literals

fn feed(d: &mut MatchGeneratorDriver, block: &[u8], matching: bool) -> Option<Seqs> {
    let mut space = d.get_next_space();
    assert!(space.len() >= block.len(), "space of {} bytes for a block of {}", space.len(), block.len());
    space[..block.len()].copy_from_slice(block);
    space.resize(block.len(), 0);
    d.commit_space(space);
    if matching {
        let mut out: Seqs = vec![];
        d.start_matching(|s| match s {
            Sequence::Triple { literals, offset, match_len } => out.push((literals.to_vec(), offset, match_len)),
            Sequence::Literals { literals } => out.push((literals.to_vec(), 0, 0)),
        });
        Some(out)
    } else {
        d.skip_matching();
        None
    }
}

/// run a whole item sequence on a new driver; Err(what) on the first violated invariant
pub fn run_sequence(items: &[Item], slice: usize, nslices: usize, states: Option<&Mutex<HashSet<u64>>>) -> Result<u64, String> {
    let mut d = MatchGeneratorDriver::verif_new(slice, nslices);
    let mut since_reset: Vec<(Vec<u8>, bool)> = vec![];
    let mut recycled = false;
    let mut matches = 0u64;
    for (k, it) in items.iter().enumerate() {
        match it {
            Item::Reset => {
                d.reset(CompressionLevel::Fastest);
                since_reset.clear();
                recycled = true;
                let w = d.verif_window();
                if !w.is_empty() {
                    return Err(format!("step {k}: {} window entries survive reset", w.len()));
                }
            }
            Item::Block(b, matching) => {
                let got = feed(&mut d, b, *matching);
                since_reset.push((b.clone(), *matching));
                let win = d.verif_window();
                let concat: Vec<u8> = win.iter().flat_map(|e| e.0.iter().cloned()).collect();
                if !concat.ends_with(b) {
                    return Err(format!("step {k}: the window does not end with the committed block"));
                }
                if concat.len() as u64 > d.window_size() {
                    return Err(format!("step {k}: {} bytes retained, advertised window {}", concat.len(), d.window_size()));
                }
                if let Some(seqs) = &got {
                    let base = concat.len() - b.len();
                    let mut pos = 0usize;
                    let mut rebuilt = vec![];
                    for (lits, of, ml) in seqs {
                        rebuilt.extend_from_slice(lits);
                        pos += lits.len();
                        if *ml == 0 && *of == 0 {
                            continue;
                        }
                        matches += 1;
                        let g = base + pos;
                        if *ml < 3 {
                            return Err(format!("step {k}: match of length {ml}"));
                        }
                        if *of == 0 || *of as u64 > d.window_size() || *of > g {
                            return Err(format!("step {k}: match at block position {pos} has offset {of}; advertised window {}, {} bytes retained before it", d.window_size(), g));
                        }
                        if pos + ml > b.len() {
                            return Err(format!("step {k}: match at {pos} of length {ml} runs past the {}-byte block", b.len()));
                        }
                        for i in 0..*ml {
                            if concat[g + i] != concat[g + i - of] {
                                return Err(format!("step {k}: match at block position {pos}, offset {of}, length {ml}: byte {i} differs ({:#04x} vs {:#04x} at the stated distance): not a true match", concat[g + i], concat[g + i - of]));
                            }
                        }
                        rebuilt.extend_from_slice(&b[pos..pos + ml]);
                        pos += ml;
                    }
                    if rebuilt != *b {
                        return Err(format!("step {k}: literal runs and matches concatenate to {} bytes {}, the block is {}", rebuilt.len(), hex(&rebuilt[..rebuilt.len().min(24)]), hex(&b[..b.len().min(24)])));
                    }
                    // same answers from a recycled driver as from a new one
                    if recycled {
                        let mut fresh = MatchGeneratorDriver::verif_new(slice, nslices);
                        let mut last = None;
                        for (fb, fm) in &since_reset {
                            last = feed(&mut fresh, fb, *fm);
                        }
                        if last.as_ref() != Some(seqs) {
                            return Err(format!("step {k}: after reset and reuse the matcher answers {:?}, a new matcher answers {:?}", seqs.iter().map(|s| (s.0.len(), s.1, s.2)).collect::<Vec<_>>(), last.map(|l| l.iter().map(|s| (s.0.len(), s.1, s.2)).collect::<Vec<_>>())));
                        }
                    }
                }
                if let Some(st) = states {
                    use std::hash::{Hash, Hasher};
                    let mut h = std::collections::hash_map::DefaultHasher::new();
                    win.hash(&mut h);
                    d.verif_pools().hash(&mut h);
                    st.lock().unwrap().insert(h.finish());
                }
            }
        }
    }
    Ok(matches)
}

/// two byte values for which two distinct 5-byte keys over them share a suffix-store slot (1024 slots)
pub fn colliding_pair() -> Option<(u8, u8, [u8; 5], [u8; 5])> {
    for x in 0..=255u8 {
        for y in (x as u16 + 1)..=255 {
            let y = y as u8;
            let mut seen: std::collections::HashMap<usize, [u8; 5]> = Default::default();
            for m in 0..32u8 {
                let k: [u8; 5] = std::array::from_fn(|i| if m >> i & 1 == 1 { y } else { x });
                let slot = MatchGeneratorDriver::verif_suffix_key(&k, 10);
                if let Some(o) = seen.get(&slot) {
                    return Some((x, y, *o, k));
                }
                seen.insert(slot, k);
            }
        }
    }
    None
}

fn blocks(alpha: &[u8], lens: &[usize]) -> Vec<Vec<u8>> {
    let mut v = vec![];
    for &l in lens {
        for i in 0..alpha.len().pow(l as u32) {
            let mut k = i;
            v.push(
                (0..l)
                    .map(|_| {
                        let c = alpha[k % alpha.len()];
                        k /= alpha.len();
                        c
                    })
                    .collect(),
            );
        }
    }
    v
}

pub fn main(tier: Tier, replay: Option<Value>) -> i32 {
    if let Some(r) = replay {
        return do_replay(&r["replay"]);
    }
    let mut run = Run::new("C17", "model_checking", tier);
    let th = meter::threads();
    let Some((x, y, k1, k2)) = colliding_pair() else {
        run.machinery_error("no colliding key pair found over any two byte values: the collision re-check would be explored vacuously".into());
        return run.finish();
    };
    run.set("colliding_alphabet", json!({"bytes": [x, y], "keys_sharing_a_slot": [hex(&k1), hex(&k2)]}));
    let states: Mutex<HashSet<u64>> = Mutex::new(HashSet::new());
    let mut total_matches = 0u64;
    let mut transitions = 0u64;
    // configurations: (slice, slices in window, block lengths, depth)
    // sequences per configuration = (2 * number of blocks) ^ depth per shape: sized so that quick stays near 10 M
    let configs: Vec<(usize, usize, Vec<usize>, usize)> = if tier == Tier::Thorough {
        vec![(8, 1, (1..=8).collect(), 2), (8, 2, (1..=8).collect(), 2), (8, 3, vec![5, 6], 3), (8, 2, vec![8], 3), (8, 2, vec![5], 4), (12, 2, vec![12], 2), (12, 3, vec![6], 3)]
    } else {
        vec![(8, 1, (1..=8).collect(), 2), (8, 2, (1..=8).collect(), 2), (8, 3, vec![6], 3), (12, 2, vec![10], 2)]
    };
    for (slice, nsl, lens, depth) in configs {
        let bl = blocks(&[x, y], &lens);
        // item alphabet: every block x {match, skip}
        let n_items = bl.len() * 2;
        // sequences: depth commits, optionally preceded by (one commit, reset) to recycle buffers, and with one
        // reset allowed between commits
        let mut shapes: Vec<Vec<bool>> = vec![]; // true = commit, false = reset
        for d in 1..=depth {
            shapes.push(vec![true; d]);
            for rpos in 1..d {
                let mut s = vec![true; d];
                s.insert(rpos, false);
                shapes.push(s);
            }
            // a reset after everything, then one more commit (reuse with recycled stores of every size)
            let mut s = vec![true; d];
            s.push(false);
            s.push(true);
            if d < depth {
                shapes.push(s);
            }
        }
        shapes.sort();
        shapes.dedup();
        for shape in shapes {
            let commits = shape.iter().filter(|c| **c).count();
            let total = n_items.pow(commits as u32);
            let accs = meter::par_fold(total, th, Acc::default, |a, mut i| {
                let mut items = vec![];
                for &c in &shape {
                    if c {
                        let it = i % n_items;
                        i /= n_items;
                        items.push(Item::Block(bl[it / 2].clone(), it % 2 == 0));
                    } else {
                        items.push(Item::Reset);
                    }
                }
                a.evals += 1;
                match guarded(|| run_sequence(&items, slice, nsl, Some(&states))) {
                    Ok(Ok(m)) => {
                        a.extra[0] += m;
                        if m > 0 {
                            a.nontrivial += 1;
                        }
                    }
                    Ok(Err(e)) => a.bad(format!("invariant:{}", crate::ev::truncate(e.split(':').nth(1).unwrap_or(&e), 40)), format!("slice {slice}, {nsl} slice(s) in the window, operations {}: {e}", show_items(&items)), json!({"slice": slice, "slices": nsl, "items": items_json(&items)})),
                    Err(p) => a.bad(format!("panic:{}", p.rsplit(" @ ").next().unwrap_or("")), format!("slice {slice}, {nsl} slice(s), operations {}: panic: {p}", show_items(&items)), json!({"slice": slice, "slices": nsl, "items": items_json(&items)})),
                }
            });
            let name = format!("slice{slice}_window{nsl}_lens{}to{}_shape_{}", lens[0], lens[lens.len() - 1], shape.iter().map(|c| if *c { 'C' } else { 'R' }).collect::<String>());
            let ev = accs.iter().map(|a| a.evals).sum::<u64>();
            let x = merge(&mut run, "C17", &name, accs, true);
            total_matches += x[0];
            transitions += ev * shape.len() as u64;
        }
    }
    run.set("states", states.lock().unwrap().len() as u64);
    run.set("transitions", transitions);
    run.set("traces_validated_against_impl", run.get("evaluations"));
    run.set("matches_reported_and_verified", total_matches);
    run.set("exhaustive", true);
    run.set("rule", "every operation sequence up to the stated depth on the real MatchGeneratorDriver with a scaled-down slice size (8, 12) and window (1-3 slices): each operation commits one block over a 2-letter alphabet (all blocks of the stated lengths) and either runs the matcher or skips it; one reset may occur anywhere, and a reset followed by reuse recycles buffers and suffix stores; the two letters are chosen (through the key-function hook) so that two distinct 5-byte keys share a suffix-store slot. After every matched block: runs and matches concatenate to the block, every match is byte-equal to its source at the stated distance in the retained window, offset <= advertised window and <= retained bytes, the window ends with the block and does not exceed the advertised size, and a recycled driver answers exactly like a new one. states = distinct (window contents, base offsets, pool sizes); non-trivial = sequences in which at least one match was reported");
    run.sample(json!({"slice": 8, "slices": 2, "items": items_json(&[Item::Block(vec![x, x, y, x, x, x, x, y], true), Item::Block(vec![x, x, y, x, x, y], false), Item::Reset, Item::Block(vec![y, x, x, x, x, y, x, x], true)])}));
    run.assume("the full-size configuration (128 KiB slice, 1 slice) differs from the explored ones only in the constants; it is exercised end to end by C02");
    run.finish()
}

fn show_items(items: &[Item]) -> String {
    items
        .iter()
        .map(|i| match i {
            Item::Reset => "reset".to_string(),
            Item::Block(b, m) => format!("{}({})", if *m { "match" } else { "skip" }, hex(b)),
        })
        .collect::<Vec<_>>()
        .join(", ")
}
fn items_json(items: &[Item]) -> Value {
    json!(items
        .iter()
        .map(|i| match i {
            Item::Reset => json!("reset"),
            Item::Block(b, m) => json!([hex(b), m]),
        })
        .collect::<Vec<_>>())
}

fn do_replay(r: &Value) -> i32 {
    let items: Vec<Item> = r["items"]
        .as_array()
        .unwrap()
        .iter()
        .map(|v| if v.is_string() { Item::Reset } else { Item::Block(crate::ev::unhex(v[0].as_str().unwrap()), v[1].as_bool().unwrap()) })
        .collect();
    let (s, n) = (r["slice"].as_u64().unwrap() as usize, r["slices"].as_u64().unwrap() as usize);
    let a = guarded(|| run_sequence(&items, s, n, None));
    let b = guarded(|| run_sequence(&items, s, n, None));
    println!("replay run 1: {:?}\nreplay run 2: {:?}", a, b);
    if a != b {
        return 2;
    }
    if matches!(a, Ok(Ok(_))) {
        0
    } else {
        println!("VIOLATION property=C17 replay=(given file)");
        1
    }
}
