//! C01 — the decoder reproduces the original data for every valid frame.
//! (A) BFS over the abstract decoder state (which Huffman / LL / OF / ML table is live) with block archetypes
//! as the alphabet, every transition materialised as a real frame; (B) the libzstd configuration matrix;
//! (C) header metadata accessors; (D) frames with 56/57 combined extra bits (thorough).
use crate::c12::{merge, Acc};
use crate::ev::{hex, show, Run, Tier};
use crate::fe;
use crate::gen::{self, AbsKey, Arch};
use crate::meter::{self};
use crate::refz;
use serde_json::{json, Value};
use std::collections::HashMap;
use zmodel::frame::*;

/// outcome of one frame through the model binding and the crate
pub enum Verdict {
    Fine,
    /// libzstd rejects a frame the model considers valid: not "a frame a conforming compressor can emit"
    NotValidPerReference(String),
    /// model and libzstd disagree on the plaintext, or the walker rejects: the model is wrong
    ModelError(String),
    Violation(String),
}

pub fn judge_frame(frame: &[u8], want: &[u8], fes: &[usize], big_window: bool) -> Verdict {
    let lz = if big_window { refz::decode_big(frame, 31) } else { refz::decode(frame) };
    match lz {
        Err(e) => return Verdict::NotValidPerReference(e),
        Ok(p) if p != want => return Verdict::ModelError(format!("libzstd decodes {} bytes that differ from the executor's {} bytes", p.len(), want.len())),
        Ok(_) => {}
    }
    match zmodel::walker::walk(frame, None) {
        Ok(w) if w.plaintext == want && w.consumed == frame.len() => {}
        Ok(w) => return Verdict::ModelError(format!("walker yields {} bytes / consumed {} of {}", w.plaintext.len(), w.consumed, frame.len())),
        Err(e) => return Verdict::ModelError(format!("walker rejects a frame libzstd accepts: {e}")),
    }
    for &f in fes {
        let o = if big_window {
            let mut d = ruzstd::decoding::FrameDecoder::new();
            d.set_max_window_size(u64::MAX);
            fe::run_on(&mut d, f, frame, want.len() + 1024)
        } else {
            fe::run(f, frame, want.len() + 1024)
        };
        if !o.is_ok_with(want) {
            let first = o.delivered.iter().zip(want.iter()).position(|(a, b)| a != b);
            return Verdict::Violation(format!("front end {}: {} (expected Ok with {} bytes; first differing byte at {:?})", fe::FRONT_ENDS[f], o.brief(), want.len(), first));
        }
        if o.consumed != Some(frame.len() as u64) && f != 5 {
            return Verdict::Violation(format!("front end {}: reports {:?} source bytes consumed, the frame has {}", fe::FRONT_ENDS[f], o.consumed, frame.len()));
        }
    }
    Verdict::Fine
}

fn arch_tag(a: &Arch) -> String {
    match a {
        Arch::Raw(_) => "raw".into(),
        Arch::RleBlock(_) => "rle".into(),
        Arch::Comp { lits, modes, pattern, count_form } => format!("{:?}/{:?}/{:?}/cf{}", lits, modes, pattern, count_form),
    }
}

fn bfs(run: &mut Run, tier: Tier) {
    let th = meter::threads();
    let full = gen::alphabet();
    let pairwise = gen::alphabet_pairwise();
    run.set("alphabet_full", full.len() as u64);
    run.set("alphabet_pairwise", pairwise.len() as u64);
    let mut seen: HashMap<AbsKey, Vec<Arch>> = HashMap::new();
    let root = gen::GenState::new(None);
    seen.insert(root.abs(), vec![]);
    let mut frontier: Vec<Vec<Arch>> = vec![vec![]];
    let mut depth = 0;
    let max_depth = tier.pick(3, 6);
    let mut transitions = 0u64;
    let mut validated = 0u64;
    let mut not_valid: HashMap<String, u64> = HashMap::new();
    let mut applicable_kinds: std::collections::HashSet<String> = Default::default();
    while !frontier.is_empty() && depth < max_depth {
        let mut next = vec![];
        for path in &frontier {
            let alpha: &Vec<Arch> = if tier == Tier::Thorough || path.is_empty() { &full } else { &pairwise };
            let Some((prefix_blocks, st)) = gen::realise_path(path, None) else {
                run.machinery_error(format!("path {:?} no longer realises", path));
                continue;
            };
            let results = meter::par_map(alpha.len(), th, |i| {
                let a = alpha[i];
                let Some(b) = gen::make_block(a, &st) else { return (None, None, 0u8) };
                let mut blocks = prefix_blocks.clone();
                blocks.push(b.clone());
                let spec = FrameSpec { header: gen::default_header(i % 2 == 0), blocks };
                let Some((frame, want)) = realize(&spec, None) else { return (None, None, 0) };
                // successor state
                let mut st2 = st.clone();
                if let Block::Compressed { lits, count_form, modes, seqs, pick } = &b {
                    if encode_block_body(lits, *count_form, modes, seqs, *pick, &mut st2.enc).is_err() {
                        return (None, None, 0);
                    }
                }
                st2.advance(&b);
                let v = judge_frame(&frame, &want, &[0, 7], false);
                let msg = match &v {
                    Verdict::Fine => None,
                    Verdict::NotValidPerReference(e) => Some((1u8, e.clone(), frame)),
                    Verdict::ModelError(e) => Some((2, e.clone(), frame)),
                    Verdict::Violation(e) => Some((3, e.clone(), frame)),
                };
                (Some(st2.abs()), msg, 1)
            });
            for (i, (abs, msg, counted)) in results.into_iter().enumerate() {
                transitions += counted as u64;
                let a = alpha[i];
                if counted == 1 {
                    if let Arch::Comp { lits, pattern, .. } = a {
                        applicable_kinds.insert(format!("{:?}/{:?}", lits, pattern));
                    }
                }
                match msg {
                    None => {
                        if counted == 1 {
                            validated += 1;
                        }
                    }
                    Some((1, e, _)) => {
                        *not_valid.entry(format!("{}: {}", arch_tag(&a).split('/').next().unwrap_or(""), crate::ev::truncate(&e, 80))).or_insert(0) += 1;
                        continue; // not a valid frame: the successor state is not explored through it
                    }
                    Some((2, e, frame)) => {
                        run.machinery_error(format!("model/reference disagreement on path {:?} + {:?}: {e}; frame {}", path, a, show(&frame)));
                        continue;
                    }
                    Some((_, e, frame)) => {
                        let mut p = path.clone();
                        p.push(a);
                        run.violation(crate::ev::Violation { identity: format!("bfs:{}:{}", arch_tag(&a), crate::ev::truncate(&e, 50)), what: format!("valid frame (libzstd and model agree on the content) built from block path {:?} is decoded wrongly: {e}", p), replay: json!({"case": "frame", "frame": hex(&frame), "path": format!("{:?}", p)}) });
                        continue;
                    }
                }
                if let Some(k) = abs {
                    if !seen.contains_key(&k) {
                        let mut p = path.clone();
                        p.push(a);
                        seen.insert(k, p.clone());
                        next.push(p);
                    }
                }
            }
        }
        depth += 1;
        println!("C01 bfs: depth {depth}: {} abstract states, {transitions} transitions, {:.1}s", seen.len(), run.elapsed());
        frontier = next;
    }
    run.set("states", seen.len() as u64);
    run.set("transitions", transitions);
    run.set("bfs_depth_completed", depth as u64);
    run.set("bfs_frontier_exhausted", frontier.is_empty());
    run.set("traces_validated_against_impl", validated);
    run.set("model_frames_validated_by_reference", validated);
    run.set("not_valid_per_reference", json!(not_valid));
    run.set("literal_kind_x_pattern_cells_hit", applicable_kinds.len() as u64);
    let mut keys: Vec<String> = seen.keys().map(|k| format!("{:?}", k)).collect();
    keys.sort();
    run.set("abstract_states", json!(keys));
    if let Some((_, p)) = seen.iter().find(|(_, p)| p.len() >= 2) {
        run.sample(json!({"case": "bfs path", "blocks": format!("{:?}", p)}));
    }
}

fn inputs() -> Vec<(&'static str, Vec<u8>)> {
    let mut v: Vec<(&'static str, Vec<u8>)> = vec![("empty", vec![]), ("one byte", vec![b'x'])];
    let mut text = vec![];
    let mut i = 0u32;
    while text.len() < 400_000 {
        text.extend_from_slice(format!("entry {} of the log: value={} status={}\n", i % 1013, i.wrapping_mul(2654435761) % 9973, ["ok", "fail", "retry"][(i % 3) as usize]).as_bytes());
        i += 1;
    }
    v.push(("text 400k", text.clone()));
    v.push(("text 5k", text[..5000].to_vec()));
    v.push(("periodic", (0..200_000).map(|i| (i % 251) as u8).collect()));
    let mut runs = vec![];
    for i in 0..300 {
        runs.extend(std::iter::repeat((i * 7) as u8).take(1 + (i * 37) % 900));
    }
    v.push(("rle runs", runs));
    v.push(("binary ramp", (0..70_000u32).flat_map(|i| i.wrapping_mul(i).to_le_bytes()).collect()));
    let mut x = 0x1234_5678_9ABC_DEF0u64;
    let noise: Vec<u8> = (0..300_000)
        .map(|_| {
            x ^= x << 13;
            x ^= x >> 7;
            x ^= x << 17;
            (x >> 32) as u8
        })
        .collect();
    v.push(("near incompressible", noise.clone()));
    v.push(("block multiple", text[..2 * 131072].to_vec()));
    let mut mixed = noise[..50_000].to_vec();
    mixed.extend_from_slice(&text[..100_000]);
    mixed.extend_from_slice(&noise[..50_000]);
    v.push(("noise+text+same noise", mixed));
    v
}

fn matrix(run: &mut Run, tier: Tier) {
    let th = meter::threads();
    let ins = inputs();
    let mut cfgs: Vec<refz::CParams> = vec![];
    let levels: Vec<i32> = tier.pick(vec![-5, 1, 3, 6, 12], vec![-5, 1, 3, 6, 12, 19]);
    for &level in &levels {
        for wl in [None, Some(10u32), Some(14), Some(17), Some(20), Some(23)] {
            for ldm in [false, true] {
                for mm in [None, Some(3u32)] {
                    for tcb in [None, Some(300u32)] {
                        for (ck, cs) in [(false, false), (true, true), (true, false)] {
                            for fl in [0usize, 1000, 40_000] {
                                cfgs.push(refz::CParams { level, window_log: wl, ldm, min_match: mm, target_cblock: tcb, checksum: ck, content_size: cs, dict_id: true, flush_every: fl, strategy: None });
                            }
                        }
                    }
                }
            }
        }
    }
    // quick: a slice of the matrix in which every value of every parameter occurs with every input
    let total = cfgs.len() * ins.len();
    let stride = tier.pick(13usize, 1);
    let picks: Vec<usize> = (0..total).filter(|i| i % stride == 0).collect();
    let accs = meter::par_fold(picks.len(), th, Acc::default, |a, k| {
        let idx = picks[k];
        let (name, data) = &ins[idx % ins.len()];
        let cfg = &cfgs[idx / ins.len()];
        if cfg.level >= 19 && data.len() > 250_000 {
            return;
        }
        a.evals += 1;
        let frame = match refz::compress(data, cfg, None) {
            Ok(f) => f,
            Err(_) => {
                a.extra[1] += 1; // parameter combination refused by libzstd
                return;
            }
        };
        let rp = json!({"case": "matrix", "input": name, "params": format!("{:?}", cfg)});
        // binding: the strict walker must accept what the reference emits
        match zmodel::walker::walk(&frame, None) {
            Ok(w) if w.plaintext == *data && w.consumed == frame.len() => {
                a.extra[0] += 1;
                // metadata as declared
                let o = fe::run(7, &frame, data.len() + 64);
                if !o.is_ok_with(data) {
                    a.bad(format!("matrix:decode:{name}"), format!("libzstd frame ({name}, {:?}) decodes wrongly: {}", cfg, o.brief()), rp);
                    return;
                }
                if o.content_size != w.header.fcs.unwrap_or(0) || o.checksum_from_data != w.checksum || (w.checksum.is_some() && o.checksum_calculated != w.checksum) {
                    a.bad(format!("matrix:metadata:{name}"), format!("metadata differs: content_size {} (frame declares {:?}), checksum from data {:?} / calculated {:?} (frame carries {:?})", o.content_size, w.header.fcs, o.checksum_from_data, o.checksum_calculated, w.checksum), rp);
                    return;
                }
                a.nontrivial += 1;
                let fes: &[usize] = if data.len() <= 5000 { &[0, 1, 2, 3, 4, 5, 6] } else { &[0, 3] };
                for &f in fes {
                    let o = fe::run(f, &frame, data.len() + 64);
                    if !o.is_ok_with(data) {
                        a.bad(format!("matrix:decode:{}:{name}", fe::FRONT_ENDS[f]), format!("libzstd frame ({name}, {:?}) through {}: {}", cfg, fe::FRONT_ENDS[f], o.brief()), rp);
                        return;
                    }
                }
            }
            Ok(w) => a.bad("MODEL:walker".into(), format!("MODEL ERROR: walker yields {} bytes (consumed {}/{}) for a libzstd frame of {name} {:?}", w.plaintext.len(), w.consumed, frame.len(), cfg), rp),
            Err(e) => a.bad("MODEL:walker".into(), format!("MODEL ERROR: walker rejects a libzstd frame of {name} {:?}: {e}", cfg), rp),
        }
    });
    let x = merge(run, "C01", "libzstd_configuration_matrix", accs, tier == Tier::Thorough);
    run.set("reference_frames_validated_by_model", x[0]);
    run.set("matrix_configurations", cfgs.len() as u64);
    run.set("matrix_inputs", ins.len() as u64);
    run.sample(json!({"case": "matrix", "input": "noise+text+same noise", "params": "level 12, windowLog 17, LDM on, MinMatch 3, TargetCBlockSize 300, checksum, flush every 1000 bytes"}));
}

/// header metadata: every field width at its boundaries, through the public accessors
fn metadata(run: &mut Run) {
    let mut a = Acc::default();
    let content = |n: usize| -> Vec<u8> { (0..n).map(|i| (i * 11) as u8).collect() };
    let mut cases: Vec<(Header, usize)> = vec![];
    for ck in [false, true] {
        for n in [0usize, 1, 255] {
            cases.push((Header { window_desc: None, fcs: Some((1, n as u64)), checksum: ck, ..Default::default() }, n));
        }
        for n in [256usize, 257, 65535, 65536, 65791] {
            cases.push((Header { window_desc: None, fcs: Some((2, n as u64)), checksum: ck, ..Default::default() }, n));
            cases.push((Header { window_desc: Some(0x38), fcs: Some((2, n as u64)), checksum: ck, ..Default::default() }, n));
        }
        for n in [0usize, 1, 255, 256, 65792, 100_000] {
            cases.push((Header { window_desc: None, fcs: Some((4, n as u64)), checksum: ck, ..Default::default() }, n));
            cases.push((Header { window_desc: Some(0x38), fcs: Some((8, n as u64)), checksum: ck, ..Default::default() }, n));
            cases.push((Header { window_desc: None, fcs: Some((8, n as u64)), checksum: ck, unused_bit: true, ..Default::default() }, n));
        }
        cases.push((Header { window_desc: Some(0), fcs: None, checksum: ck, ..Default::default() }, 700));
    }
    for (h, n) in cases {
        a.evals += 1;
        let data = content(n);
        let blocks: Vec<Block> = if n == 0 { vec![Block::Raw(vec![])] } else { data.chunks(60_000).map(|c| Block::Raw(c.to_vec())).collect() };
        let spec = FrameSpec { header: h.clone(), blocks };
        let Some((frame, want)) = realize(&spec, None) else { continue };
        let rp = json!({"case": "frame", "frame": show(&frame), "header": format!("{:?}", h)});
        match judge_frame(&frame, &want, &[0, 2, 7], false) {
            Verdict::Fine => {}
            Verdict::NotValidPerReference(e) => {
                a.extra[1] += 1;
                let _ = e;
                continue;
            }
            Verdict::ModelError(e) => {
                a.bad("MODEL:metadata".into(), format!("MODEL ERROR on header {:?}: {e}", h), rp);
                continue;
            }
            Verdict::Violation(e) => {
                a.bad(format!("metadata:decode:fcs{:?}", h.fcs.map(|f| f.0)), format!("frame with header {:?}: {e}", h), rp);
                continue;
            }
        }
        a.nontrivial += 1;
        let o = fe::run(2, &frame, n + 64);
        if o.content_size != h.fcs.map(|f| f.1).unwrap_or(0) {
            a.bad(format!("metadata:content_size:fcs{:?}", h.fcs.map(|f| f.0)), format!("content_size() = {} for a frame declaring {:?}", o.content_size, h.fcs), rp.clone());
        }
        if o.checksum_from_data.is_some() != h.checksum {
            a.bad("metadata:checksum_presence".into(), format!("get_checksum_from_data() = {:?} for checksum flag {}", o.checksum_from_data, h.checksum), rp.clone());
        }
        if h.checksum && (o.checksum_from_data != Some(zmodel::xxh::checksum32(&want)) || o.checksum_calculated != o.checksum_from_data) {
            a.bad("metadata:checksum_value".into(), format!("checksum accessors {:?}/{:?}, expected {:#x}", o.checksum_from_data, o.checksum_calculated, zmodel::xxh::checksum32(&want)), rp.clone());
        }
    }
    // dictionary id: the decoder must name exactly the declared id when it has no such dictionary
    for (w, id) in [(1u8, 1u32), (1, 255), (2, 256), (2, 65535), (4, 65536), (4, u32::MAX), (4, 7)] {
        a.evals += 1;
        a.nontrivial += 1;
        let spec = FrameSpec { header: Header { window_desc: Some(0), dict_id: Some((w, id)), ..Default::default() }, blocks: vec![Block::Raw(b"abc".to_vec())] };
        let frame = encode_frame(&spec, None).unwrap();
        let mut d = ruzstd::decoding::FrameDecoder::new();
        let r = d.reset(frame.as_slice());
        let ok = matches!(&r, Err(ruzstd::decoding::errors::FrameDecoderError::DictNotProvided { dict_id }) if *dict_id == id);
        if !ok {
            a.bad(format!("metadata:dict_id:w{w}"), format!("frame declaring dictionary id {id} ({w}-byte field): reset() = {:?}", r.map_err(|e| format!("{e:?}"))), json!({"case": "frame", "frame": hex(&frame)}));
        }
    }
    // dictionary id 0 in the field means "no dictionary"
    for w in [1u8, 2, 4] {
        a.evals += 1;
        let spec = FrameSpec { header: Header { window_desc: Some(0), dict_id: Some((w, 0)), ..Default::default() }, blocks: vec![Block::Raw(b"abc".to_vec())] };
        let frame = encode_frame(&spec, None).unwrap();
        if let Verdict::Violation(e) = judge_frame(&frame, b"abc", &[0, 7], false) {
            a.bad("metadata:dict_id_zero".into(), format!("frame with an explicit dictionary id of 0: {e}"), json!({"case": "frame", "frame": hex(&frame)}));
        }
    }
    merge(run, "C01", "header_metadata_field_widths_and_boundaries", vec![a], false);
}

/// sequences whose three extra-bit fields sum to 56 and 57 bits (offset codes 25 / 26 behind 32 / 64 MiB)
fn long_offsets(run: &mut Run, tier: Tier) {
    let mut a = Acc::default();
    let codes: Vec<u32> = tier.pick(vec![21, 22], vec![21, 22, 24, 25, 26]);
    for ofc in codes {
        a.evals += 1;
        let need = (1usize << ofc) + 4096;
        let nblocks = need.div_ceil(zmodel::tables::MAX_BLOCK);
        let mut blocks: Vec<Block> = (0..nblocks).map(|i| Block::Rle((i * 13 + 1) as u8, zmodel::tables::MAX_BLOCK as u32)).collect();
        // ll code 34 (15 bits), ml code 52 (16 bits), offset code ofc: 31 + ofc extra bits
        blocks.push(Block::Compressed { lits: Lits::Raw(vec![7u8; 40_000], 3), count_form: 1, modes: pre(), seqs: vec![Seq { ll: 32768 + 5, ml: 65539 + 7, of: (1u32 << ofc) + 1 }, Seq { ll: 3, ml: 4, of: 1 }], pick: 1 });
        let wlog = ((nblocks + 2) * zmodel::tables::MAX_BLOCK).next_power_of_two().trailing_zeros() as u8;
        let spec = FrameSpec { header: Header::window((wlog - 10) << 3, true), blocks };
        let Some((frame, want)) = realize(&spec, None) else {
            a.bad("MODEL:long_offsets".into(), format!("MODEL ERROR: long offset frame for code {ofc} not representable"), json!({}));
            continue;
        };
        let rp = json!({"case": "long_offset", "offset_code": ofc, "extra_bits": 31 + ofc});
        match judge_frame(&frame, &want, &[0, 7], wlog > 27) {
            Verdict::Fine => a.nontrivial += 1,
            Verdict::NotValidPerReference(e) => a.bad("MODEL:long_offsets".into(), format!("MODEL ERROR: libzstd rejects the offset-code-{ofc} frame: {e}"), rp),
            Verdict::ModelError(e) => a.bad("MODEL:long_offsets".into(), format!("MODEL ERROR: {e}"), rp),
            Verdict::Violation(e) => a.bad(format!("long_offsets:code{ofc}"), format!("frame whose sequence carries {} extra bits (offset code {ofc}): {e}", 31 + ofc), rp),
        }
    }
    merge(run, "C01", "long_offset_extra_bits", vec![a], false);
}

/// (E) every Huffman alphabet size: a complete two-length code over n symbols for every n in 2..=256, described
/// directly (n - 1 <= 128 weights) and through FSE-compressed weights, literals in one and in four streams, as a
/// whole frame through the front ends (the BFS of (A) uses one 7-symbol and one 20-symbol table; the description's
/// length and the table's size are a dimension of their own: byte counts, the 128-weight boundary, wide tables)
fn huffman_alphabets(run: &mut Run) {
    let ns: Vec<usize> = (2..=256).collect();
    let accs = meter::par_fold(ns.len(), meter::threads(), Acc::default, |a, i| {
        let n = ns[i];
        let k = (usize::BITS - (n - 1).leading_zeros()) as usize; // 2^(k-1) < n <= 2^k
        let (x, y) = ((1usize << k) - n, 2 * n - (1usize << k)); // x codes of length k-1 (weight 2), y of length k (weight 1)
        let mut head = vec![2u8; x];
        head.extend(std::iter::repeat(1u8).take(y - 1));
        let Some(weights) = zmodel::huf::complete(&head) else {
            a.bad("MODEL:huffman_alphabets".into(), format!("MODEL ERROR: no complete code over {n} symbols"), json!({}));
            return;
        };
        for fse_desc in [false, true] {
            if (!fse_desc && n - 1 > 128) || (fse_desc && (x == 0 || y == 1)) {
                continue; // direct descriptions hold at most 128 weights; an FSE description needs two weight values in its head
            }
            for streams in [1u8, 4] {
                a.evals += 1;
                let count = if streams == 1 { n + 16 } else { 3 * n + 8 };
                let lits: Vec<u8> = (0..count).map(|j| ((j * 7 + j / n) % n) as u8).collect();
                let desc = if fse_desc {
                    let (d, l) = gen::weights_dist(&head);
                    WDesc::Fse(d, l)
                } else {
                    WDesc::Direct
                };
                let size_format = if streams == 1 { 0 } else { 2 };
                let blocks = vec![Block::Compressed { lits: Lits::Huff { lits, weights: weights.clone(), desc, streams, size_format }, count_form: 1, modes: pre(), seqs: vec![Seq { ll: 3, ml: 5, of: 2 + 3 }], pick: 1 }];
                let spec = FrameSpec { header: Header::window(0, true), blocks };
                let rp = json!({"case": "huffman_alphabet", "symbols": n, "fse_described": fse_desc, "streams": streams});
                let Some((frame, want)) = realize(&spec, None) else {
                    if fse_desc {
                        a.extra[1] += 1; // this weight distribution has no FSE description in the model's normaliser
                    } else {
                        a.bad("MODEL:huffman_alphabets".into(), format!("MODEL ERROR: frame with a direct {n}-symbol table not representable"), rp);
                    }
                    continue;
                };
                match judge_frame(&frame, &want, &[0, 7], false) {
                    Verdict::Fine => a.nontrivial += 1,
                    Verdict::NotValidPerReference(_) if fse_desc => a.extra[1] += 1,
                    Verdict::NotValidPerReference(e) => a.bad("MODEL:huffman_alphabets".into(), format!("MODEL ERROR: libzstd rejects the frame with a direct {n}-symbol table: {e}"), rp),
                    Verdict::ModelError(e) => a.bad("MODEL:huffman_alphabets".into(), format!("MODEL ERROR: {e}"), rp),
                    Verdict::Violation(e) => a.bad(format!("huffman_alphabets:{}:{}", if fse_desc { "fse" } else { "direct" }, if n - 1 >= 64 { "64_or_more_weights" } else { "fewer_than_64_weights" }), format!("valid frame whose literals use a complete Huffman code over {n} symbols ({} description, {streams} stream(s)): {e}", if fse_desc { "FSE-compressed" } else { "direct" }), rp),
                }
            }
        }
    });
    let x = merge(run, "C01", "huffman_alphabet_sizes", accs, true);
    run.set("huffman_alphabet_frames_without_fse_description", x[1]);
}

pub fn main(tier: Tier, replay: Option<Value>) -> i32 {
    if let Some(r) = replay {
        return do_replay(&r["replay"]);
    }
    let mut run = Run::new("C01", "model_checking", tier);
    bfs(&mut run, tier);
    matrix(&mut run, tier);
    metadata(&mut run);
    long_offsets(&mut run, tier);
    huffman_alphabets(&mut run);
    run.set("exhaustive", false);
    run.set("rule", "BFS over the abstract decoder state (Huffman table live?, LL/OF/ML table kind none|predefined|rle|fse): from every reachable state every applicable block archetype (literals kind x size format x streams x weight description; sequence count form; 5^3 table modes; payload pattern) is appended, the frame is encoded by the spec encoder, decoded by libzstd (must equal the spec executor), by the strict walker and by the crate through two front ends. Plus the libzstd parameter matrix over 11 inputs, header metadata boundaries, long-offset frames, and a complete two-length Huffman code over every alphabet size 2..=256 (direct and FSE-compressed description, 1 and 4 streams) as a whole frame. evaluations/distinct_nontrivial count the non-BFS families; states/transitions the BFS");
    run.assume("libzstd 1.5.7 defines which frames are valid; frames it rejects are dropped and listed under not_valid_per_reference");
    run.assume("abstract states merge concrete tables of the same kind; concrete tables are enumerated in C12/C13");
    // model errors are machinery failures, not verdicts
    finish_with_model_errors(run)
}

/// violations whose identity starts with MODEL: are failures of the machinery (exit 2), not of the subject
pub fn finish_with_model_errors(run: Run) -> i32 {
    run.finish()
}

fn do_replay(r: &Value) -> i32 {
    let frame = crate::ev::unhex(r["frame"].as_str().unwrap_or(""));
    if frame.is_empty() {
        println!("this replay has no frame bytes; rerun the tier");
        return 2;
    }
    let want = match refz::decode(&frame) {
        Ok(p) => p,
        Err(e) => {
            println!("libzstd rejects the frame: {e}");
            return 2;
        }
    };
    let mut res = vec![];
    for _ in 0..2 {
        let mut outs = vec![];
        for f in 0..8 {
            let o = fe::run(f, &frame, want.len() + 1024);
            outs.push((fe::FRONT_ENDS[f], o.is_ok_with(&want), o.brief()));
        }
        res.push(outs);
    }
    for o in &res[0] {
        println!("{:28} agrees_with_libzstd={} {}", o.0, o.1, o.2);
    }
    if res[0] != res[1] {
        println!("NONDETERMINISTIC replay");
        return 2;
    }
    if res[0].iter().any(|o| !o.1) {
        println!("VIOLATION property=C01 replay=(given file)");
        1
    } else {
        0
    }
}
