//! History-replay explicit-state explorer (DESIGN 2.1). A state is the operation history that reaches it;
//! the transition function is the real implementation replayed on a fresh object; states are de-duplicated
//! on a canonical key. Level-synchronous BFS, parallel inside a level, deterministic merge order.
use crate::meter;
use std::collections::HashMap;
use std::fmt::Debug;
use std::hash::Hash;
use std::time::Instant;

pub trait System: Sync {
    type Op: Clone + Send + Sync + Debug;
    type Key: Hash + Eq + Clone + Send + Sync + Debug;
    type Live;
    fn fresh(&self) -> Self::Live;
    /// calls the real code, updates the reference model, checks; Err = violation text
    fn step(&self, live: &mut Self::Live, op: &Self::Op) -> Result<(), String>;
    /// small finite menu, simplest first
    fn enabled(&self, live: &Self::Live) -> Vec<Self::Op>;
    fn key(&self, live: &Self::Live) -> Self::Key;
    /// states for which this is false are counted and checked but not expanded (exploration bound)
    fn expand(&self, _live: &Self::Live) -> bool {
        true
    }
    /// optional extra check on states with no successors or flagged terminal by the system
    fn on_state(&self, _live: &Self::Live) -> Result<StateInfo, String> {
        Ok(StateInfo::default())
    }
}

#[derive(Default, Clone, Copy)]
pub struct StateInfo {
    pub terminal: bool,
}

#[derive(Clone, Debug)]
pub struct Caps {
    pub max_depth: usize,
    pub max_states: usize,
    pub max_wall_s: f64,
    pub max_violations: usize,
    /// violations another run of the same exploration owns: not recorded, do not count towards the cap
    pub not_mine: Option<fn(&str) -> bool>,
}
impl Default for Caps {
    fn default() -> Self {
        Caps { max_depth: usize::MAX, max_states: 20_000_000, max_wall_s: 3600.0, max_violations: 8, not_mine: None }
    }
}

#[derive(Debug, Default, Clone)]
pub struct Stats {
    pub states: u64,
    pub transitions: u64,
    pub terminal_states: u64,
    pub boundary_states: u64,
    pub max_depth: usize,
    pub completed_depth: usize,
    pub exhausted: bool,
    pub cap_hit: Option<String>,
    pub nondeterminism: Option<String>,
    pub wall_s: f64,
}

pub struct Found<O> {
    pub ops: Vec<O>,
    pub msg: String,
}

struct Node<O> {
    parent: u32,
    op: Option<O>,
}

fn history<O: Clone>(arena: &[Node<O>], mut i: u32) -> Vec<O> {
    let mut v = vec![];
    while let Some(op) = &arena[i as usize].op {
        v.push(op.clone());
        i = arena[i as usize].parent;
    }
    v.reverse();
    v
}

/// replay `ops` on a fresh object without the explorer; Ok(live) or the violation text and the failing index
pub fn replay<S: System>(sys: &S, ops: &[S::Op]) -> Result<S::Live, (usize, String)> {
    let mut live = sys.fresh();
    for (i, op) in ops.iter().enumerate() {
        match meter::guarded(|| sys.step(&mut live, op)) {
            Ok(Ok(())) => {}
            Ok(Err(m)) => return Err((i, m)),
            Err(p) => return Err((i, format!("panic: {p}"))),
        }
    }
    Ok(live)
}

pub fn bfs<S: System>(sys: &S, caps: &Caps) -> (Stats, Vec<Found<S::Op>>) {
    let t0 = Instant::now();
    let threads = meter::threads();
    let mut arena: Vec<Node<S::Op>> = vec![Node { parent: 0, op: None }];
    let mut seen: HashMap<S::Key, u32> = HashMap::new();
    let mut stats = Stats::default();
    let mut found: Vec<Found<S::Op>> = vec![];
    let root = sys.fresh();
    seen.insert(sys.key(&root), 0);
    drop(root);
    let mut frontier: Vec<u32> = vec![0];
    let mut depth = 0usize;
    // reverse map for the determinism check
    let mut key_of: Vec<S::Key> = vec![seen.keys().next().unwrap().clone()];
    'outer: while !frontier.is_empty() {
        if depth >= caps.max_depth {
            stats.cap_hit = Some(format!("depth cap {} reached with {} unexpanded states", caps.max_depth, frontier.len()));
            break;
        }
        struct Out<O, K> {
            succ: Vec<(O, K)>,
            viol: Vec<(O, String)>,
            nondet: Option<String>,
            terminal: bool,
            boundary: bool,
            transitions: u64,
        }
        let fr = &frontier;
        let ar = &arena;
        let ko = &key_of;
        let sn = &seen;
        let outs: Vec<Out<S::Op, S::Key>> = meter::par_map(fr.len(), threads, |i| {
            let id = fr[i];
            let hist = history(ar, id);
            let mut out = Out { succ: vec![], viol: vec![], nondet: None, terminal: false, boundary: false, transitions: 0 };
            let base = match replay(sys, &hist) {
                Ok(l) => l,
                Err((at, m)) => {
                    out.nondet = Some(format!("history {:?} replayed cleanly at discovery but failed at step {at} on re-execution: {m}", hist));
                    return out;
                }
            };
            let k = sys.key(&base);
            if k != ko[id as usize] {
                out.nondet = Some(format!("history {:?}: key at discovery {:?} != key on replay {:?}", hist, ko[id as usize], k));
                return out;
            }
            match sys.on_state(&base) {
                Ok(info) => out.terminal = info.terminal,
                Err(m) => out.viol.push((hist.last().cloned().unwrap_or_else(|| panic!("invariant fails in the initial state: {m}")), format!("state invariant: {m}"))),
            }
            let ops = if sys.expand(&base) { sys.enabled(&base) } else { out.boundary = true; vec![] };
            drop(base);
            for op in ops {
                let mut live = match replay(sys, &hist) {
                    Ok(l) => l,
                    Err((at, m)) => {
                        out.nondet = Some(format!("history {:?} failed at {at} on third execution: {m}", hist));
                        return out;
                    }
                };
                out.transitions += 1;
                match meter::guarded(|| sys.step(&mut live, &op)) {
                    Ok(Ok(())) => {
                        let k = sys.key(&live);
                        // only candidates for new states are kept (the level's merge decides among them in
                        // deterministic order); `seen` is not mutated while the level is expanded
                        if !sn.contains_key(&k) && !out.succ.iter().any(|(_, k2)| *k2 == k) {
                            out.succ.push((op, k));
                        }
                    }
                    Ok(Err(m)) => out.viol.push((op, m)),
                    Err(p) => out.viol.push((op, format!("panic: {p}"))),
                }
            }
            out
        });
        let mut next: Vec<u32> = vec![];
        for (i, out) in outs.into_iter().enumerate() {
            let id = frontier[i];
            if let Some(n) = out.nondet {
                stats.nondeterminism = Some(n);
                break 'outer;
            }
            stats.transitions += out.transitions;
            if out.terminal {
                stats.terminal_states += 1;
            }
            if out.boundary {
                stats.boundary_states += 1;
            }
            for (op, m) in out.viol {
                if caps.not_mine.map_or(false, |f| f(&m)) {
                    continue;
                }
                if found.len() < caps.max_violations {
                    let mut ops = history(&arena, id);
                    // a state-invariant violation is attributed to the history itself
                    if !m.starts_with("state invariant:") {
                        ops.push(op);
                    }
                    found.push(Found { ops, msg: m });
                }
            }
            for (op, k) in out.succ {
                if !seen.contains_key(&k) {
                    let nid = arena.len() as u32;
                    arena.push(Node { parent: id, op: Some(op) });
                    key_of.push(k.clone());
                    seen.insert(k, nid);
                    next.push(nid);
                }
            }
        }
        depth += 1;
        stats.completed_depth = depth;
        if !next.is_empty() {
            stats.max_depth = depth;
        }
        frontier = next;
        if found.len() >= caps.max_violations {
            stats.cap_hit = Some("violation cap reached; exploration stopped early".into());
            break;
        }
        if seen.len() > caps.max_states {
            stats.cap_hit = Some(format!("state cap {} reached at depth {}", caps.max_states, depth));
            break;
        }
        if t0.elapsed().as_secs_f64() > caps.max_wall_s {
            stats.cap_hit = Some(format!("wall cap {}s reached at depth {}", caps.max_wall_s, depth));
            break;
        }
    }
    stats.states = seen.len() as u64;
    stats.exhausted = frontier.is_empty() && stats.cap_hit.is_none() && stats.nondeterminism.is_none();
    stats.wall_s = t0.elapsed().as_secs_f64();
    (stats, found)
}
