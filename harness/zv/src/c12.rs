//! C12 — FSE tables equal the specification's; FSE encoder and decoder are exact inverses.
use crate::ev::{hex, Run, Tier, Violation};
use crate::meter::{self, guarded};
use crate::refz;
use ruzstd::fse::fse_encoder::{self, verif as fe};
use ruzstd::fse::FSETable as DecTable;
use ruzstd::verif as rz;
use serde_json::{json, Value};
use zmodel::frame::*;
use zmodel::fse;
use zmodel::tables::*;

#[derive(Default)]
pub struct Acc {
    pub evals: u64,
    pub nontrivial: u64,
    pub viol: Vec<Violation>,
    pub extra: [u64; 4],
}
impl Acc {
    pub fn bad(&mut self, identity: String, what: String, replay: Value) {
        if self.viol.len() < 4 && !self.viol.iter().any(|v| v.identity == identity) {
            self.viol.push(Violation { identity, what, replay });
        }
    }
}
pub fn merge(run: &mut Run, prop: &str, name: &str, accs: Vec<Acc>, exhaustive: bool) -> [u64; 4] {
    let mut e = 0;
    let mut n = 0;
    let mut x = [0u64; 4];
    for a in accs {
        e += a.evals;
        n += a.nontrivial;
        for i in 0..4 {
            x[i] += a.extra[i];
        }
        for v in a.viol {
            run.violation(v);
        }
    }
    run.add("evaluations", e);
    run.add("distinct_nontrivial", n);
    run.set(&format!("sub_{name}_evaluations"), e);
    run.set(&format!("sub_{name}_exhaustive"), exhaustive);
    println!("{prop} {name}: {e} evaluations ({n} non-trivial), exhaustive={exhaustive}, {:.1}s", run.elapsed());
    x
}

fn dist_json(d: &[i16]) -> Value {
    json!(d)
}

/// compare the crate's decoding table for (dist, log) with the specification's, through both construction paths
fn check_decoder_table(a: &mut Acc, dist: &[i16], log: u8, max_symbol: u8, max_log: u8) {
    a.evals += 1;
    a.nontrivial += 1;
    let want = fse::build(dist, log);
    let probs: Vec<i32> = dist.iter().map(|&p| p as i32).collect();
    let rp = json!({"case": "decoder_table", "dist": dist_json(dist), "log": log, "max_symbol": max_symbol, "max_log": max_log});
    let cmp = |t: &DecTable| -> Option<String> {
        if t.decode.len() != want.entries.len() {
            return Some(format!("table has {} states, specification {}", t.decode.len(), want.entries.len()));
        }
        for (i, (g, w)) in t.decode.iter().zip(want.entries.iter()).enumerate() {
            if g.symbol != w.sym || g.num_bits != w.nbits || g.base_line != w.base as u32 {
                return Some(format!("state {i}: (symbol {}, bits {}, baseline {}) but the specification says ({}, {}, {})", g.symbol, g.num_bits, g.base_line, w.sym, w.nbits, w.base));
            }
        }
        None
    };
    match guarded(|| {
        let mut t = DecTable::new(max_symbol);
        t.build_from_probabilities(log, &probs).map(|_| t)
    }) {
        Err(p) => a.bad("decoder_table:panic".into(), format!("build_from_probabilities({dist:?}, {log}) panicked: {p}"), rp.clone()),
        Ok(Err(e)) => a.bad("decoder_table:refused".into(), format!("build_from_probabilities({dist:?}, {log}) refused a valid distribution: {e:?}"), rp.clone()),
        Ok(Ok(t)) => {
            if let Some(d) = cmp(&t) {
                a.bad("decoder_table:differs".into(), format!("distribution {dist:?} log {log}: {d}"), rp.clone());
            }
        }
    }
    // through the serialized description (only if the last described symbol is non-zero)
    if *dist.last().unwrap() != 0 && log <= max_log {
        let mut desc = fse::describe(dist, log);
        let dlen = desc.len();
        desc.extend_from_slice(&[0xEE, 0xEE]); // following bytes must not be touched
        match guarded(|| {
            let mut t = DecTable::new(max_symbol);
            t.build_decoder(&desc, max_log).map(|n| (n, t))
        }) {
            Err(p) => a.bad("decoder_description:panic".into(), format!("build_decoder({}) panicked: {p}", hex(&desc)), rp.clone()),
            Ok(Err(e)) => a.bad("decoder_description:refused".into(), format!("build_decoder refused the description {} of {dist:?} log {log}: {e:?}", hex(&desc[..dlen])), rp.clone()),
            Ok(Ok((n, t))) => {
                if n != dlen {
                    a.bad("decoder_description:length".into(), format!("build_decoder consumed {n} bytes of the {dlen}-byte description of {dist:?} log {log}"), rp.clone());
                } else if let Some(d) = cmp(&t) {
                    a.bad("decoder_description:differs".into(), format!("description {} of {dist:?} log {log}: {d}", hex(&desc[..dlen])), rp.clone());
                }
            }
        }
    }
}

/// all distributions over exactly `nsym` leading symbols (last one non-zero) with the given total
fn enum_dists(nsym: usize, total: i32, f: &mut dyn FnMut(&[i16])) {
    fn rec(cur: &mut Vec<i16>, nsym: usize, left: i32, f: &mut dyn FnMut(&[i16])) {
        let last = cur.len() + 1 == nsym;
        if last {
            // the last symbol takes what is left: either as probability `left` or, if left == 1, also as -1
            if left >= 1 {
                cur.push(left as i16);
                f(cur);
                cur.pop();
                if left == 1 {
                    cur.push(-1);
                    f(cur);
                    cur.pop();
                }
            }
            return;
        }
        for p in -1..=left {
            let cost = if p == -1 { 1 } else { p };
            if cost >= left {
                continue; // something must be left for the last (non-zero) symbol
            }
            cur.push(p as i16);
            rec(cur, nsym, left - cost, f);
            cur.pop();
        }
    }
    rec(&mut vec![], nsym, total, f);
}

fn decoder_tables(run: &mut Run, tier: Tier) {
    let th = meter::threads();
    // complete small scopes
    let mut all: Vec<(Vec<i16>, u8)> = vec![];
    let max5 = 5;
    for nsym in 1..=max5 {
        enum_dists(nsym, 32, &mut |d| all.push((d.to_vec(), 5)));
    }
    let n5 = all.len();
    for log in 6..=9u8 {
        for nsym in 1..=3 {
            enum_dists(nsym, 1 << log, &mut |d| all.push((d.to_vec(), log)));
        }
    }
    let accs = meter::par_fold(all.len(), th, Acc::default, |a, i| {
        let (d, log) = &all[i];
        check_decoder_table(a, d, *log, 255, 9);
    });
    merge(run, "C12", "decoder_tables_small_scope_complete", accs, true);
    run.set("distributions_log5_complete", n5 as u64);
    // shaped families
    let mut fam: Vec<(Vec<i16>, u8, u8, u8)> = vec![];
    for log in 5..=9u8 {
        let size = 1i32 << log;
        for (nsym, max_symbol, max_log) in [(36usize, 35u8, 9u8), (53, 52, 9), (32, 31, 8), (256, 255, 9), (12, 255, 6)] {
            if log > max_log {
                continue;
            }
            // flat
            if nsym as i32 <= size {
                let mut d = vec![(size / nsym as i32) as i16; nsym];
                d[0] += (size - (size / nsym as i32) * nsym as i32) as i16;
                fam.push((d, log, max_symbol, max_log));
            }
            // one heavy symbol + many -1
            let k = (nsym as i32 - 1).min(size - 1);
            let mut d = vec![-1i16; k as usize + 1];
            d[0] = (size - k) as i16;
            fam.push((d, log, max_symbol, max_log));
            // geometric
            let mut d = vec![];
            let mut left = size;
            while left > 0 && d.len() < nsym {
                let p = if d.len() + 1 == nsym { left } else { (left + 1) / 2 };
                d.push(p as i16);
                left -= p;
            }
            if left == 0 {
                fam.push((d, log, max_symbol, max_log));
            }
            // zero runs of every length 0..=9 between two symbols, also twice
            for z in 0..=9usize {
                if z + 2 <= nsym {
                    let mut d = vec![(size / 2) as i16];
                    d.extend(std::iter::repeat(0).take(z));
                    d.push((size - size / 2) as i16);
                    fam.push((d.clone(), log, max_symbol, max_log));
                    if 2 * z + 3 <= nsym && size >= 4 {
                        let mut d = vec![(size / 2) as i16];
                        d.extend(std::iter::repeat(0).take(z));
                        d.push((size / 4) as i16);
                        d.extend(std::iter::repeat(0).take(z));
                        d.push((size - size / 2 - size / 4) as i16);
                        fam.push((d, log, max_symbol, max_log));
                    }
                }
            }
            // every value that sits on a low-threshold boundary: first symbol p, rest flat-ish
            for p in [1i32, 2, 3, size / 4 - 1, size / 4, size / 4 + 1, size / 2 - 1, size / 2, size / 2 + 1, size - 2, size - 1] {
                if p >= 1 && p < size && nsym >= 2 {
                    fam.push((vec![p as i16, (size - p) as i16], log, max_symbol, max_log));
                    if size - p >= 2 && nsym >= 3 {
                        fam.push((vec![p as i16, -1, (size - p - 1) as i16], log, max_symbol, max_log));
                    }
                }
            }
        }
    }
    let accs = meter::par_fold(fam.len(), th, Acc::default, |a, i| {
        let (d, log, ms, ml) = &fam[i];
        check_decoder_table(a, d, *log, *ms, *ml);
    });
    merge(run, "C12", "decoder_tables_shaped_families", accs, false);
}

/// all short byte strings through build_decoder vs the specification's parser
fn description_bytes(run: &mut Run, tier: Tier) {
    let th = meter::threads();
    let configs: Vec<(u8, u8, &str)> = vec![(9, 35, "ll"), (8, 31, "of"), (9, 52, "ml"), (6, 255, "hufw")];
    let _ = tier;
    let one = |a: &mut Acc, s0: &[u8], max_log: u8, max_symbol: u8| {
        a.evals += 1;
        // a description is always followed by more data in a frame (other tables, the bit stream); the crate
        // reads one value's worth of bits ahead, so the string is followed by two zero bytes and only
        // descriptions that end before the last of them are compared
        let mut padded = s0.to_vec();
        padded.extend_from_slice(&[0, 0]);
        let s = &padded[..];
        let want = fse::parse_description(s, max_log, max_symbol as usize);
        if matches!(want, Ok((_, _, used)) if used > s0.len() + 1) {
            return;
        }
        let rp = json!({"case": "description_bytes", "bytes": hex(s), "max_log": max_log, "max_symbol": max_symbol});
        let got = guarded(|| {
            let mut t = DecTable::new(max_symbol);
            t.build_decoder(s, max_log).map(|n| (n, t))
        });
        match (want, got) {
            (_, Err(p)) => a.bad("description_bytes:panic".into(), format!("build_decoder({}) panicked: {p}", hex(s)), rp),
            (Ok((log, dist, used)), Ok(Ok((n, t)))) => {
                a.nontrivial += 1;
                let w = fse::build(&dist, log);
                let same = t.decode.len() == w.entries.len() && t.decode.iter().zip(w.entries.iter()).all(|(g, w)| g.symbol == w.sym && g.num_bits == w.nbits && g.base_line == w.base as u32);
                if n != used || !same {
                    a.bad("description_bytes:differs".into(), format!("build_decoder({}) used {n} bytes / table differs; specification: {used} bytes, distribution {dist:?} log {log}", hex(s)), rp);
                }
            }
            (Err(_), Ok(Err(_))) => {}
            (Ok((log, dist, _)), Ok(Err(e))) => a.bad("description_bytes:refused".into(), format!("build_decoder({}) refused ({e:?}) the valid description of {dist:?} log {log}", hex(s)), rp),
            (Err(e), Ok(Ok((n, t)))) => a.bad("description_bytes:accepted".into(), format!("build_decoder({}) accepted ({n} bytes, {} states) what the specification rejects: {e:?}", hex(s), t.decode.len()), rp),
        }
    };
    for (max_log, max_symbol, name) in configs {
        let accs = meter::par_fold(1 << 16, th, Acc::default, |a, i| {
            if i < 256 {
                one(a, &[i as u8], max_log, max_symbol);
            }
            one(a, &[i as u8, (i >> 8) as u8], max_log, max_symbol);
            for b2 in 0..=255u8 {
                one(a, &[i as u8, (i >> 8) as u8, b2], max_log, max_symbol);
            }
        });
        merge(run, "C12", &format!("description_all_strings_up_to_3_bytes_{name}"), accs, true);
    }
}

/// the three predefined tables: crate decoder == crate encoder == zmodel; zmodel pinned to libzstd observationally
fn predefined(run: &mut Run, tier: Tier) {
    let mut a = Acc::default();
    let pd = rz::predefined();
    let enc = fe::defaults();
    let names = ["ll", "of", "ml"];
    let max_sym = [35u8, 31, 52];
    for i in 0..3 {
        let want = default_table(i);
        let (log, dist) = pd[i];
        a.evals += 1;
        a.nontrivial += 1;
        let rp = json!({"case": "predefined", "table": names[i]});
        let mut t = DecTable::new(max_sym[i]);
        match t.build_from_probabilities(log, dist) {
            Err(e) => a.bad(format!("predefined:{}:build", names[i]), format!("predefined {} table does not build: {e:?}", names[i]), rp.clone()),
            Ok(()) => {
                for (s, (g, w)) in t.decode.iter().zip(want.entries.iter()).enumerate() {
                    if g.symbol != w.sym || g.num_bits != w.nbits || g.base_line != w.base as u32 || t.decode.len() != want.entries.len() {
                        a.bad(format!("predefined:{}:decoder", names[i]), format!("predefined {} decoding table, state {s}: ({}, {}, {}) but the specification says ({}, {}, {})", names[i], g.symbol, g.num_bits, g.base_line, w.sym, w.nbits, w.base), rp.clone());
                        break;
                    }
                }
            }
        }
        // encoder's predefined table must be the inverse of the same table
        a.evals += 1;
        check_encoder_against_spec(&mut a, &enc[i], &want, &format!("predefined:{}:encoder", names[i]), rp.clone());
    }
    merge(run, "C12", "predefined_tables_crate_vs_model", vec![a], true);

    // observational pinning of the model's predefined tables to libzstd: one frame per initial state and per
    // (state, next-bits) transition; libzstd must decode each to the executor's prediction
    let th = meter::threads();
    let max_code_of = tier.pick(20u8, 26);
    let mut specs: Vec<(usize, usize, usize, FrameSpec)> = vec![]; // (table, s1, s2|MAX, spec)
    for i in 0..3 {
        let t = default_table(i);
        let enc = fse::Enc::new(&t);
        let ordinal = |s: usize| enc.states_of(t.entries[s].sym).iter().position(|&x| x == s).unwrap();
        let mk_seq = |codes: [u8; 3], salt: u32| -> Seq {
            let (llb, lln) = LL_BASE[codes[0] as usize];
            let (mlb, mln) = ML_BASE[codes[2] as usize];
            let ofb = 1u32 << codes[1];
            let ex = |n: u8| if n == 0 { 0 } else { salt.wrapping_mul(2654435761) >> (32 - n as u32) };
            Seq { ll: llb + ex(lln), ml: mlb + ex(mln), of: ofb + ex(codes[1]) }
        };
        let build = |seqs: Vec<Seq>, pick: usize| -> Option<FrameSpec> {
            let need_lits: usize = seqs.iter().map(|s| s.ll as usize).sum();
            let max_off = seqs.iter().map(|s| s.of.saturating_sub(3)).max().unwrap() as usize;
            if need_lits > 100_000 || seqs.iter().map(|s| s.ml as usize).sum::<usize>() + need_lits > MAX_BLOCK {
                return None;
            }
            // history: RLE blocks so that every offset is within the produced data, then the block under test
            let mut blocks = vec![];
            let mut produced = 0usize;
            let mut b = 0u8;
            while produced < max_off + 8 {
                blocks.push(Block::Rle(b, MAX_BLOCK as u32));
                produced += MAX_BLOCK;
                b = b.wrapping_add(37);
            }
            let lits: Vec<u8> = (0..need_lits + 3).map(|k| (k * 7 + 1) as u8).collect();
            blocks.push(Block::Compressed { lits: Lits::Raw(lits, 3), count_form: 1, modes: pre(), seqs, pick: 0 });
            let wlog = ((produced + 2 * MAX_BLOCK) as u64).next_power_of_two().trailing_zeros().max(10) as u8;
            let mut spec = FrameSpec { header: Header::window((wlog - 10) << 3, false), blocks };
            if let Some(Block::Compressed { pick: p, .. }) = spec.blocks.last_mut() {
                *p = pick;
            }
            Some(spec)
        };
        for s1 in 0..t.entries.len() {
            let c1 = t.entries[s1].sym;
            if i == 1 && c1 > max_code_of {
                continue;
            }
            // initial state s1: one sequence, the other two tables use their simplest code
            let mut codes = [0u8; 3];
            codes[i] = c1;
            if i != 1 {
                codes[1] = 2; // offset value 4..7: a real offset of 1..4
            }
            // `pick` applies to all three tables; the other tables' symbol 0 / 2 have one or more states, any is fine
            if let Some(spec) = build(vec![mk_seq(codes, s1 as u32 + 1)], ordinal(s1)) {
                specs.push((i, s1, usize::MAX, spec));
            }
            // every transition out of s1
            let e = &t.entries[s1];
            for bits in 0..(1usize << e.nbits) {
                let s2 = e.base as usize + bits;
                let c2 = t.entries[s2].sym;
                if i == 1 && c2 > max_code_of {
                    continue;
                }
                let mut k1 = [0u8; 3];
                let mut k2 = [0u8; 3];
                k1[i] = c1;
                k2[i] = c2;
                if i != 1 {
                    k1[1] = 2;
                    k2[1] = 2;
                }
                if let Some(spec) = build(vec![mk_seq(k1, (s1 * 64 + bits) as u32), mk_seq(k2, (s2 * 131 + 7) as u32)], ordinal(s2)) {
                    specs.push((i, s1, s2, spec));
                }
            }
        }
    }
    let accs = meter::par_fold(specs.len(), th, Acc::default, |a, k| {
        let (i, s1, s2, spec) = &specs[k];
        a.evals += 1;
        let Some((frame, want)) = realize(spec, None) else {
            a.extra[1] += 1;
            return;
        };
        // the chain must really pass through (s1 -> s2) in table i: re-walk with the model
        let lz = if frame.len() > 0 && spec.header.window_size() > (1 << 27) { refz::decode_big(&frame, 31) } else { refz::decode(&frame) };
        match lz {
            Ok(p) if p == want => {
                a.extra[0] += 1;
                a.nontrivial += 1;
            }
            Ok(p) => a.bad(format!("MODEL:predefined:{}", names[*i]), format!("MODEL ERROR: libzstd decodes the frame for table {} state {s1}->{s2} to {} bytes differing from the model's {} bytes: the model's predefined table is wrong", names[*i], p.len(), want.len()), json!({"case": "model_vs_reference", "frame": hex(&frame[frame.len().saturating_sub(80)..])})),
            Err(e) => a.bad(format!("MODEL:predefined:{}", names[*i]), format!("MODEL ERROR: libzstd rejects the frame for table {} state {s1}->{s2}: {e}", names[*i]), json!({"case": "model_vs_reference", "frame": hex(&frame[frame.len().saturating_sub(80)..])})),
        }
        // and the crate's decoder on the same frame
        let mut dec = ruzstd::decoding::FrameDecoder::new();
        let mut out = Vec::with_capacity(want.len() + 8);
        match guarded(|| dec.decode_all_to_vec(&frame, &mut out)) {
            Ok(Ok(())) if out == want => {}
            other => a.bad(format!("predefined:{}:frame", names[*i]), format!("frame exercising predefined {} table state {s1} -> {} decodes wrongly: {:?} ({} bytes, expected {})", names[*i], if *s2 == usize::MAX { "(initial)".to_string() } else { s2.to_string() }, other.map(|r| r.map_err(|e| e.to_string())), out.len(), want.len()), json!({"case": "frame", "frame_tail": hex(&frame[frame.len().saturating_sub(80)..]), "table": names[*i], "s1": s1, "s2": s2})),
        }
    });
    let x = merge(run, "C12", "predefined_tables_per_state_and_transition_frames", accs, tier == Tier::Thorough);
    run.set("model_frames_validated_by_reference", x[0]);
    run.set("predefined_of_codes_covered_up_to", max_code_of as u64);
}

/// encoder table vs a specification table: every symbol's states, next_state for every (symbol, index)
fn check_encoder_against_spec(a: &mut Acc, enc: &fse_encoder::FSETable, spec: &fse::Table, id: &str, rp: Value) {
    let size = 1usize << spec.log;
    if fe::table_size(enc) != size {
        a.bad(format!("{id}:size"), format!("encoder table size {} but 2^log = {size}", fe::table_size(enc)), rp);
        return;
    }
    let probs = fe::probabilities(enc);
    for sym in 0..256usize {
        let want_p = spec.dist.get(sym).copied().unwrap_or(0) as i32;
        if probs[sym] != want_p {
            a.bad(format!("{id}:probability"), format!("symbol {sym}: encoder probability {} but distribution says {want_p}", probs[sym]), rp);
            return;
        }
        let states = fe::states(enc, sym as u8);
        let want_states: Vec<usize> = spec.entries.iter().enumerate().filter(|(_, e)| e.sym as usize == sym).map(|(i, _)| i).collect();
        let mut got: Vec<usize> = states.iter().map(|s| s.0).collect();
        got.sort();
        if got != want_states {
            a.bad(format!("{id}:states"), format!("symbol {sym}: encoder states {:?} but the decoding table has it at {:?}", got, want_states), rp);
            return;
        }
        for (index, baseline, nbits) in &states {
            let e = &spec.entries[*index];
            if e.base as usize != *baseline || e.nbits != *nbits {
                a.bad(format!("{id}:inverse"), format!("symbol {sym} state {index}: encoder (baseline {baseline}, bits {nbits}) but the decoding table says ({}, {})", e.base, e.nbits), rp);
                return;
            }
        }
        if want_states.is_empty() {
            continue;
        }
        match guarded(|| fe::start_state(enc, sym as u8)) {
            Ok(s) if want_states.contains(&s) => {}
            other => {
                a.bad(format!("{id}:start_state"), format!("start_state({sym}) = {:?}, not a state of that symbol", other), rp);
                return;
            }
        }
        for idx in 0..size {
            match guarded(|| fe::next_state(enc, sym as u8, idx)) {
                Ok((index, baseline, nbits)) => {
                    let e = &spec.entries[index];
                    if e.sym as usize != sym || !(baseline <= idx && idx < baseline + (1usize << nbits)) || e.base as usize != baseline || e.nbits != nbits {
                        a.bad(format!("{id}:next_state"), format!("next_state({sym}, {idx}) = state {index} (baseline {baseline}, bits {nbits}); the decoder would go from there to {}..{}", e.base, e.base as usize + (1usize << e.nbits)), rp);
                        return;
                    }
                }
                Err(p) => {
                    a.bad(format!("{id}:next_state_panic"), format!("next_state({sym}, {idx}) panicked: {p}"), rp);
                    return;
                }
            }
        }
    }
}

/// one histogram through the production table builder; checks everything the property says about it
pub fn check_encoder_histogram(a: &mut Acc, counts: &[(u8, usize)], max_log: u8, max_symbol: u8) {
    a.evals += 1;
    let support: Vec<u8> = counts.iter().filter(|c| c.1 > 0).map(|c| c.0).collect();
    if support.is_empty() {
        return;
    }
    a.nontrivial += 1;
    let rp = json!({"case": "encoder_histogram", "counts": counts, "max_log": max_log, "max_symbol": max_symbol});
    let shape = if support.len() == 1 { if support[0] == 0 { "support={0}".to_string() } else { "single_symbol".to_string() } } else { format!("{}symbols", support.len().min(3)) };
    let data = counts.iter().flat_map(|&(s, c)| std::iter::repeat(s).take(c));
    let t = match guarded(|| fse_encoder::build_table_from_data(data, max_log, true)) {
        Ok(t) => t,
        Err(p) => {
            a.bad(format!("encoder_histogram:panic:{shape}"), format!("build_table_from_data(histogram {counts:?}, max_log {max_log}, avoid_0_numbit) panicked: {p}"), rp);
            return;
        }
    };
    let log = t.acc_log();
    let probs = fe::probabilities(&t);
    let last = probs.iter().rposition(|&p| p != 0).unwrap_or(0);
    let dist: Vec<i16> = probs[..=last].iter().map(|&p| p as i16).collect();
    if !(5..=max_log).contains(&log) {
        a.bad(format!("encoder_histogram:log:{shape}"), format!("histogram {counts:?}: accuracy log {log} outside 5..={max_log}"), rp);
        return;
    }
    if fse::dist_sum(&dist) != 1usize << log || dist.iter().any(|&p| p < -1) {
        a.bad(format!("encoder_histogram:sum:{shape}"), format!("histogram {counts:?}: probabilities {dist:?} do not sum to 2^{log}"), rp);
        return;
    }
    for &s in &support {
        if probs[s as usize] == 0 {
            a.bad(format!("encoder_histogram:lost_symbol:{shape}"), format!("histogram {counts:?}: symbol {s} occurs but has probability 0 in {dist:?}"), rp);
            return;
        }
    }
    if dist.len() > max_symbol as usize + 1 {
        a.bad(format!("encoder_histogram:alphabet:{shape}"), format!("histogram {counts:?}: table describes {} symbols, alphabet has {}", dist.len(), max_symbol as usize + 1), rp);
        return;
    }
    let spec = fse::build(&dist, log);
    check_encoder_against_spec(a, &t, &spec, &format!("encoder_histogram:{shape}"), rp.clone());
    // description parses back to the same table, consuming every byte
    match guarded(|| fe::write_table(&t)) {
        Err(p) => a.bad(format!("encoder_histogram:write_table_panic:{shape}"), format!("write_table panicked for {dist:?}: {p}"), rp),
        Ok(desc) => {
            match fse::parse_description(&desc, max_log, max_symbol as usize) {
                Ok((l2, d2, used)) if l2 == log && d2 == dist && used == desc.len() => {}
                other => {
                    a.bad(format!("encoder_histogram:description:{shape}"), format!("write_table for {dist:?} log {log} wrote {} which the specification reads as {:?}", hex(&desc), other), rp);
                    return;
                }
            }
            let mut dt = DecTable::new(max_symbol);
            match guarded(|| dt.build_decoder(&desc, max_log)) {
                Ok(Ok(n)) if n == desc.len() && dt.symbol_probabilities.iter().map(|&p| p as i16).collect::<Vec<_>>() == dist => {}
                other => a.bad(format!("encoder_histogram:readback:{shape}"), format!("the crate's decoder reads the description {} of {dist:?} as {:?} / {:?}", hex(&desc), other.map(|r| r.map_err(|e| format!("{e:?}"))), dt.symbol_probabilities), rp),
            }
        }
    }
}

fn encoder_histograms(run: &mut Run, tier: Tier) {
    let th = meter::threads();
    let values = [0usize, 1, 2, 3, 5, 8, 13, 100, 5000];
    let tables: [(u8, u8, [u8; 5], &str); 4] = [(9, 35, [0, 1, 2, 17, 35], "ll"), (9, 52, [0, 1, 2, 17, 52], "ml"), (8, 31, [0, 1, 2, 17, 31], "of"), (6, 11, [0, 1, 2, 5, 11], "hufw")];
    let nsym = 5usize;
    let _ = tier;
    for (max_log, max_symbol, pos, name) in tables {
        let total = values.len().pow(nsym as u32);
        let accs = meter::par_fold(total, th, Acc::default, |a, mut i| {
            let mut counts = vec![];
            for k in 0..nsym {
                // quick tier: positions 0,1,2 and the last one
                let p = if nsym == 4 && k == 3 { pos[4] } else { pos[k] };
                counts.push((p, values[i % values.len()]));
                i /= values.len();
            }
            check_encoder_histogram(a, &counts, max_log, max_symbol);
        });
        merge(run, "C12", &format!("encoder_histograms_{name}_up_to_{nsym}_symbols_complete"), accs, true);
    }
    // wide supports: k symbols with count 1 plus one heavy symbol, and all-equal counts
    let mut wide: Vec<(Vec<(u8, usize)>, u8, u8)> = vec![];
    for (max_log, max_symbol) in [(9u8, 35u8), (9, 52), (8, 31), (6, 11)] {
        for k in 2..=max_symbol as usize + 1 {
            for heavy in [1usize, 2, 50, 100_000] {
                let mut c: Vec<(u8, usize)> = (0..k).map(|s| (s as u8, 1usize)).collect();
                c[k / 2].1 = heavy;
                wide.push((c.clone(), max_log, max_symbol));
                let c2: Vec<(u8, usize)> = (0..k).map(|s| (s as u8, heavy)).collect();
                wide.push((c2, max_log, max_symbol));
                let c3: Vec<(u8, usize)> = (0..k).map(|s| (s as u8, 1 + s * heavy % 97)).collect();
                wide.push((c3, max_log, max_symbol));
            }
        }
    }
    // shaped families over every support size: geometric, arithmetic, two-level, one dominant + tail, powers of two
    for (max_log, max_symbol) in [(9u8, 35u8), (9, 52), (8, 31), (6, 11)] {
        for k in 1..=max_symbol as usize + 1 {
            for scale in [1usize, 3, 17, 1000] {
                let geo: Vec<(u8, usize)> = (0..k).map(|s| (s as u8, (scale << (s % 14)).max(1))).collect();
                let geo_rev: Vec<(u8, usize)> = (0..k).map(|s| (s as u8, (scale << ((k - 1 - s) % 14)).max(1))).collect();
                let ari: Vec<(u8, usize)> = (0..k).map(|s| (s as u8, 1 + s * scale)).collect();
                let two: Vec<(u8, usize)> = (0..k).map(|s| (s as u8, if s % 2 == 0 { scale } else { scale * 50 })).collect();
                let dom: Vec<(u8, usize)> = (0..k).map(|s| (s as u8, if s == k - 1 { scale * 10_000 } else { 1 + s % 3 })).collect();
                let gaps: Vec<(u8, usize)> = (0..k).map(|s| (s as u8, if s % 3 == 1 { 0 } else { 1 + (s * scale) % 7 })).collect();
                for h in [geo, geo_rev, ari, two, dom, gaps] {
                    wide.push((h, max_log, max_symbol));
                }
            }
        }
    }
    let accs = meter::par_fold(wide.len(), th, Acc::default, |a, i| check_encoder_histogram(a, &wide[i].0, wide[i].1, wide[i].2));
    merge(run, "C12", "encoder_histograms_wide_supports", accs, false);
}

/// every short symbol string through the production interleaved coder (table built from the string itself)
fn interleaved_roundtrip(run: &mut Run, tier: Tier) {
    let th = meter::threads();
    let maxlen = tier.pick(9usize, 11);
    for alpha in [2usize, 3, 4] {
        for len in 4..=maxlen {
            let total = alpha.pow(len as u32);
            let accs = meter::par_fold(total, th, Acc::default, |a, mut i| {
                let data: Vec<u8> = (0..len)
                    .map(|_| {
                        let c = (i % alpha) as u8;
                        i /= alpha;
                        c
                    })
                    .collect();
                interleaved_case(a, &data);
            });
            merge(run, "C12", &format!("interleaved_all_strings_alphabet{alpha}_len{len}"), accs, true);
        }
    }
}

pub fn interleaved_case(a: &mut Acc, data: &[u8]) {
    a.evals += 1;
    let rp = json!({"case": "interleaved", "symbols": data});
    let distinct = {
        let mut d = data.to_vec();
        d.sort();
        d.dedup();
        d.len()
    };
    let shape = if distinct == 1 { if data[0] == 0 { "support={0}" } else { "single_symbol" } } else { "multi" };
    let t = match guarded(|| fse_encoder::build_table_from_data(data.iter().copied(), 6, true)) {
        Ok(t) => t,
        Err(p) => {
            a.bad(format!("interleaved:table_panic:{shape}"), format!("build_table_from_data({data:?}, 6, true) panicked: {p}"), rp);
            return;
        }
    };
    a.nontrivial += 1;
    let enc = match guarded(|| fe::encode_interleaved(&t, data)) {
        Ok(e) => e,
        Err(p) => {
            a.bad(format!("interleaved:encode_panic:{shape}"), format!("encode_interleaved({data:?}) panicked: {p}"), rp);
            return;
        }
    };
    if enc.len() >= 128 {
        return; // cannot be framed as a weights description; not produced for strings this short
    }
    // the output is exactly a Huffman weights description body: frame it and decode with the specification
    let mut framed = vec![enc.len() as u8];
    framed.extend(&enc);
    match zmodel::huf::parse_description(&framed) {
        Ok((w, used)) if w == data && used == framed.len() => {}
        other => {
            a.bad(format!("interleaved:spec_decode:{shape}"), format!("encode_interleaved({data:?}) wrote {} which the specification decodes as {:?}", hex(&enc), other), rp);
            return;
        }
    }
    // and with the crate's own reader
    let mut ht = ruzstd::huff0::HuffmanTable::new();
    let _ = guarded(|| ht.build_decoder(&framed));
    if ht.verif_weights() != data {
        a.bad(format!("interleaved:crate_decode:{shape}"), format!("encode_interleaved({data:?}) wrote {} which the crate's weight reader decodes as {:?}", hex(&enc), ht.verif_weights()), rp);
    }
}

/// bit writer / forward reader / backward reader against a bit-vector model, all width sequences to a depth
fn bit_io(run: &mut Run, tier: Tier) {
    let th = meter::threads();
    let widths = [0usize, 1, 7, 8, 9, 31, 32, 56];
    let depth = tier.pick(5u32, 6);
    let total = widths.len().pow(depth);
    let accs = meter::par_fold(total, th, Acc::default, |a, mut i| {
        let mut ws = vec![];
        for _ in 0..depth {
            ws.push(widths[i % widths.len()]);
            i /= widths.len();
        }
        bit_case(a, &ws);
    });
    merge(run, "C12", &format!("bit_io_all_width_sequences_depth{depth}"), accs, true);
}

fn bit_case(a: &mut Acc, ws: &[usize]) {
    a.evals += 1;
    let rp = json!({"case": "bit_io", "widths": ws});
    let total: usize = ws.iter().sum();
    let pad = (8 - total % 8) % 8;
    // values: deterministic patterns with the top and bottom bit set where possible
    let vals: Vec<u64> = ws.iter().enumerate().map(|(k, &n)| if n == 0 { 0 } else { (0x9E37_79B9_7F4A_7C15u64.rotate_left(k as u32 * 13) | 1 | 1u64 << (n - 1)) & (u64::MAX >> (64 - n)) }).collect();
    let mut model: Vec<bool> = vec![];
    for (v, n) in vals.iter().zip(ws.iter()) {
        for b in 0..*n {
            model.push(v >> b & 1 == 1);
        }
    }
    for _ in 0..pad {
        model.push(false);
    }
    let bytes = match guarded(|| {
        let mut w = rz::BitWriter::new();
        for (v, n) in vals.iter().zip(ws.iter()) {
            w.write_bits(*v, *n);
        }
        let idx = w.index();
        let mis = w.misaligned();
        w.write_bits(0, pad);
        (w.dump(), idx, mis)
    }) {
        Ok((b, idx, mis)) => {
            if idx != total || mis != pad {
                a.bad("bit_io:writer_index".into(), format!("after writing widths {ws:?}: index() = {idx} (expected {total}), misaligned() = {mis} (expected {pad})"), rp);
                return;
            }
            b
        }
        Err(p) => {
            a.bad("bit_io:writer_panic".into(), format!("writing widths {ws:?} panicked: {p}"), rp);
            return;
        }
    };
    let want: Vec<u8> = model.chunks(8).map(|c| c.iter().enumerate().fold(0u8, |acc, (i, b)| acc | (*b as u8) << i)).collect();
    if bytes != want {
        a.bad("bit_io:writer_bytes".into(), format!("writing {vals:x?} with widths {ws:?} gave {} expected {}", hex(&bytes), hex(&want)), rp);
        return;
    }
    a.nontrivial += 1;
    // forward reader
    let r = guarded(|| {
        let mut r = rz::BitReader::new(&bytes);
        let mut out = vec![];
        for n in ws {
            // the crate never asks the forward reader for zero bits
            out.push(if *n == 0 { Ok(0) } else { r.get_bits(*n) });
        }
        let over = r.get_bits(pad + 1);
        (out, r.bits_read(), over)
    });
    match r {
        Ok((out, read, over)) => {
            let exp: Vec<Result<u64, String>> = vals.iter().map(|v| Ok(*v)).collect();
            if out != exp || read != total || over.is_ok() {
                a.bad("bit_io:forward_reader".into(), format!("forward reader on widths {ws:?}: got {out:x?} (bits_read {read}), expected {vals:x?}; read past the end: {over:?}"), rp.clone());
            }
        }
        Err(p) => a.bad("bit_io:forward_reader_panic".into(), format!("forward reader panicked on widths {ws:?}: {p}"), rp.clone()),
    }
    // backward reader: yields the padded stream from its last bit downwards; widths <= 56 per call
    let r = guarded(|| {
        let mut r = rz::BitReaderReversed::new(&bytes);
        let mut out = vec![];
        let mut rem = vec![r.bits_remaining()];
        out.push(r.get_bits(pad as u8));
        for n in ws.iter().rev() {
            let n = *n;
            if n > 56 {
                let hi = r.get_bits((n - 32) as u8);
                let lo = r.get_bits(32);
                out.push(hi << 32 | lo);
            } else {
                out.push(r.get_bits(n as u8));
            }
            rem.push(r.bits_remaining());
        }
        // past the start: zero fill, negative remaining
        let z = r.get_bits(9);
        rem.push(r.bits_remaining());
        (out, rem, z)
    });
    match r {
        Ok((out, rem, z)) => {
            let mut exp = vec![0u64];
            exp.extend(vals.iter().rev());
            let mut left = (total + pad) as isize;
            let mut exp_rem = vec![left];
            for n in ws.iter().rev() {
                left -= *n as isize;
                exp_rem.push(left);
            }
            exp_rem[0] = (total + pad) as isize;
            // the first entry was taken before the padding read
            let mut er = vec![(total + pad) as isize];
            let mut l = total as isize;
            for n in ws.iter().rev() {
                l -= *n as isize;
                er.push(l);
            }
            er.push(-9);
            if out != exp || rem != er || z != 0 {
                a.bad("bit_io:backward_reader".into(), format!("backward reader on widths {ws:?}: values {out:x?} expected {exp:x?}; bits_remaining {rem:?} expected {er:?}; past-the-start read {z}"), rp);
            }
        }
        Err(p) => a.bad("bit_io:backward_reader_panic".into(), format!("backward reader panicked on widths {ws:?}: {p}"), rp),
    }
}

pub fn main(tier: Tier, replay: Option<Value>) -> i32 {
    if let Some(r) = replay {
        return do_replay(&r["replay"]);
    }
    let mut run = Run::new("C12", "exploration", tier);
    decoder_tables(&mut run, tier);
    description_bytes(&mut run, tier);
    predefined(&mut run, tier);
    encoder_histograms(&mut run, tier);
    interleaved_roundtrip(&mut run, tier);
    bit_io(&mut run, tier);
    // the production call sites (which maximum accuracy log each field's table is built with): whole blocks
    // whose code distributions are swept per field, through a scripted matcher (family shared with C16)
    crate::c16::code_distributions(&mut run, tier, "C12");
    run.set("exhaustive", false);
    run.set("rule", "complete small scopes: every normalised distribution for log 5 over <=4/5 symbols and logs 6..9 over <=2/3 symbols through both decoder construction paths vs zmodel; every byte string of length <=3 as a table description; one frame per state and per (state, next-bits) transition of each predefined table decoded by libzstd and by the crate; every histogram over <=4/5 symbols at boundary code positions with counts in {0,1,2,3,5,8,13,100,5000} through the production table builder (max log 9/9/8/6, zero-bit avoidance) with next_state checked for every (symbol, index); every symbol string of length 2..=8/9 over alphabets of 2,3,4 through the interleaved coder; every sequence of bit widths to depth 4/5 through writer and both readers; the tables written at the three production call sites for whole blocks whose literal-length / match-length / offset code distributions are swept (2..=all usable codes x 1..=64 uses, with and without a code used once), each frame parsed by the strict walker (accuracy log <= 9/9/8, description == table used, all bits consumed), libzstd and the crate's decoder. non-trivial = accepted by the specification / non-empty histogram");
    run.sample(json!({"case": "decoder_table", "dist": [30, -1, 1], "log": 5}));
    run.sample(json!({"case": "encoder_histogram", "counts": [[0, 5], [1, 0], [2, 1], [17, 100], [35, 1]], "max_log": 9}));
    run.sample(json!({"case": "interleaved", "symbols": [1, 1, 0, 2, 1, 1]}));
    run.sample(json!({"case": "bit_io", "widths": [7, 56, 1, 64]}));
    run.assume("zmodel::fse is a correct transcription of RFC 8878 section 4.1; its predefined tables are pinned to libzstd 1.5.7 per state and transition (offset codes above the tier's bound need windows above 64 MiB and are not pinned)");
    run.finish()
}

fn do_replay(r: &Value) -> i32 {
    let mut res = vec![];
    for _ in 0..2 {
        let mut a = Acc::default();
        match r["case"].as_str().unwrap_or("") {
            "decoder_table" => {
                let d: Vec<i16> = r["dist"].as_array().unwrap().iter().map(|x| x.as_i64().unwrap() as i16).collect();
                check_decoder_table(&mut a, &d, r["log"].as_u64().unwrap() as u8, r["max_symbol"].as_u64().unwrap_or(255) as u8, r["max_log"].as_u64().unwrap_or(9) as u8);
            }
            "encoder_histogram" => {
                let c: Vec<(u8, usize)> = r["counts"].as_array().unwrap().iter().map(|x| (x[0].as_u64().unwrap() as u8, x[1].as_u64().unwrap() as usize)).collect();
                check_encoder_histogram(&mut a, &c, r["max_log"].as_u64().unwrap() as u8, r["max_symbol"].as_u64().unwrap_or(255) as u8);
            }
            "interleaved" => {
                let d: Vec<u8> = r["symbols"].as_array().unwrap().iter().map(|x| x.as_u64().unwrap() as u8).collect();
                interleaved_case(&mut a, &d);
            }
            "bit_io" => {
                let w: Vec<usize> = r["widths"].as_array().unwrap().iter().map(|x| x.as_u64().unwrap() as usize).collect();
                bit_case(&mut a, &w);
            }
            other => {
                println!("replay of case kind {other:?} is not supported individually; rerun the tier");
                return 2;
            }
        }
        res.push(a.viol.first().map(|v| v.what.clone()));
    }
    println!("replay run 1: {:?}\nreplay run 2: {:?}", res[0], res[1]);
    if res[0] != res[1] {
        return 2;
    }
    if res[0].is_some() {
        println!("VIOLATION property=C12 replay=(given file)");
        1
    } else {
        0
    }
}
