//! Shared executions of C02 (round trip) and C15 (structure and size): one compression, every oracle.
use crate::meter::guarded;
use crate::refz;
use ruzstd::encoding::{compress_to_vec, CompressionLevel};
use zmodel::walker::{BlockInfo, Walk};

pub const LEVELS: [CompressionLevel; 2] = [CompressionLevel::Uncompressed, CompressionLevel::Fastest];

#[derive(Debug, Clone)]
pub struct Finding {
    /// "C02" or "C15"
    pub prop: &'static str,
    pub identity: String,
    pub what: String,
}

/// how the encoder treated a block, as classified by the strict walker
pub fn decision(b: &BlockInfo) -> &'static str {
    match (b.kind, b.lits_type) {
        (0, _) => "raw",
        (1, _) => "rle",
        (_, Some(0)) => "compressed/raw-literals",
        (_, Some(1)) => "compressed/rle-literals",
        (_, Some(2)) => "compressed/huffman",
        (_, Some(3)) => "compressed/treeless",
        _ => "compressed/?",
    }
}

pub fn size_bound(input_len: usize) -> usize {
    let blocks = input_len.div_ceil(128 * 1024).max(1);
    input_len + 6 + 3 * blocks + 3 + 4
}

pub fn level_name(l: CompressionLevel) -> &'static str {
    match l {
        CompressionLevel::Uncompressed => "Uncompressed",
        CompressionLevel::Fastest => "Fastest",
        _ => "other",
    }
}

/// all oracles on one frame produced for `input`
pub fn judge(input: &[u8], frame: &[u8], level: CompressionLevel, tag: &str) -> (Vec<Finding>, Option<Walk>) {
    let mut f = vec![];
    let ln = level_name(level);
    // C02: both decoders return the input
    let mut dec = ruzstd::decoding::FrameDecoder::new();
    let mut out = Vec::with_capacity(input.len() + 16);
    match guarded(|| dec.decode_all_to_vec(frame, &mut out)) {
        Ok(Ok(())) if out == input => {}
        other => f.push(Finding { prop: "C02", identity: format!("roundtrip:crate:{ln}:{tag}"), what: format!("{ln}: this crate's decoder does not return the {}-byte input from the {}-byte frame: {:?} ({} bytes)", input.len(), frame.len(), other.map(|r| r.map_err(|e| e.to_string())), out.len()) }),
    }
    match refz::decode(frame) {
        Ok(p) if p == input => {}
        other => f.push(Finding { prop: "C02", identity: format!("roundtrip:libzstd:{ln}:{tag}"), what: format!("{ln}: libzstd does not return the {}-byte input from the {}-byte frame: {:?}", input.len(), frame.len(), other.map(|v| v.len())) }),
    }
    // C15: structure and size
    let w = match zmodel::walker::walk(frame, None) {
        Ok(w) => {
            if w.consumed != frame.len() {
                f.push(Finding { prop: "C15", identity: format!("structure:trailing:{ln}:{tag}"), what: format!("{ln}: {} bytes follow the last block / checksum of the frame", frame.len() - w.consumed) });
            }
            if w.plaintext != input {
                f.push(Finding { prop: "C15", identity: format!("structure:content:{ln}:{tag}"), what: format!("{ln}: the frame is well-formed but regenerates {} bytes that differ from the {}-byte input", w.plaintext.len(), input.len()) });
            }
            Some(w)
        }
        Err(e) => {
            f.push(Finding { prop: "C15", identity: format!("structure:invalid:{ln}:{tag}:{}", crate::ev::truncate(&e, 40)), what: format!("{ln}: the frame for a {}-byte input is not well-formed: {e}", input.len()) });
            None
        }
    };
    if frame.len() > size_bound(input.len()) {
        f.push(Finding { prop: "C15", identity: format!("size:{ln}:{tag}"), what: format!("{ln}: frame of {} bytes for an input of {} bytes exceeds input + framing overhead ({})", frame.len(), input.len(), size_bound(input.len())) });
    }
    (f, w)
}

/// compress + judge; a panic in the compressor is a C02 finding
pub fn check(input: &[u8], level: CompressionLevel, tag: &str) -> (Vec<Finding>, Option<Walk>, Vec<u8>) {
    match guarded(|| compress_to_vec(input, level)) {
        // a panic is a finding for both properties that share these executions: C02 (no frame to decode) and C15
        // ("for every input the emitted frame is well-formed": none is emitted)
        Err(p) => (["C02", "C15"].into_iter().map(|prop| Finding { prop, identity: format!("panic:{}", p.rsplit(" @ ").next().unwrap_or("")), what: format!("{}: compressing a {}-byte input panicked: {p}", level_name(level), input.len()) }).collect(), None, vec![]),
        Ok(frame) => {
            let (f, w) = judge(input, &frame, level, tag);
            (f, w, frame)
        }
    }
}

// ------------------------------------------------------------------------------------------------ generators

pub fn xorshift(seed: u64) -> impl FnMut() -> u64 {
    let mut x = seed.wrapping_mul(0x9E3779B97F4A7C15) | 1;
    move || {
        x ^= x << 13;
        x ^= x >> 7;
        x ^= x << 17;
        x
    }
}

/// bytes without accidental 5-byte repeats (every aligned 4-byte word is distinct)
pub fn unique(n: usize, salt: u32) -> Vec<u8> {
    let mut v = Vec::with_capacity(n + 4);
    let mut i = 0u32;
    while v.len() < n {
        v.extend_from_slice(&(i.wrapping_mul(2654435761).wrapping_add(salt) ^ (i << 7)).to_le_bytes());
        i += 1;
    }
    v.truncate(n);
    v
}

/// `n` bytes over `k` symbols (values spread over 0..=255) with geometric-ish frequencies, shuffled; with a skewed
/// distribution the Huffman coder is worthwhile
pub fn skewed(n: usize, k: usize, seed: u64) -> Vec<u8> {
    let mut rnd = xorshift(seed);
    let sym = |i: usize| if k <= 1 { 65u8 } else { ((i * 255) / (k - 1)) as u8 };
    // weight of rank r: proportional to 1/(r+1)
    let w: Vec<f64> = (0..k).map(|r| 1.0 / (r as f64 + 1.0)).collect();
    let tot: f64 = w.iter().sum();
    let mut v = Vec::with_capacity(n);
    for (r, wr) in w.iter().enumerate() {
        let c = ((wr / tot) * n as f64).floor() as usize;
        v.extend(std::iter::repeat(sym(r)).take(c.max(if n >= k { 1 } else { 0 })));
    }
    while v.len() < n {
        v.push(sym(0));
    }
    v.truncate(n);
    for i in (1..v.len()).rev() {
        let j = (rnd() % (i as u64 + 1)) as usize;
        v.swap(i, j);
    }
    v
}

/// exactly `n` bytes: every one of `k` symbols equally often, symbol 0 boosted by `boost` occurrences, shuffled;
/// `matches` 5-byte ranges are copied from earlier positions
pub fn near_uniform(n: usize, k: usize, boost: usize, matches: usize, seed: u64) -> Vec<u8> {
    let mut rnd = xorshift(seed);
    let mut v = Vec::with_capacity(n);
    let base = n.saturating_sub(boost);
    for i in 0..base {
        v.push((i % k) as u8);
    }
    while v.len() < n {
        v.push(0);
    }
    for i in (1..v.len()).rev() {
        let j = (rnd() % (i as u64 + 1)) as usize;
        v.swap(i, j);
    }
    for m in 0..matches {
        let src = 1000 + 3000 * m;
        let dst = n / 2 + 5000 * m;
        if dst + 5 <= n {
            let s: Vec<u8> = v[src..src + 5].to_vec();
            v[dst..dst + 5].copy_from_slice(&s);
        }
    }
    v
}

/// `counts(s)` copies of each byte value s in 0..200, shuffled: literals with an exactly chosen histogram
pub fn multiset200(counts: &dyn Fn(usize) -> usize, seed: u64) -> Vec<u8> {
    let mut v = vec![];
    for sym in 0..200usize {
        v.extend(std::iter::repeat(sym as u8).take(counts(sym)));
    }
    let mut rnd = xorshift(seed);
    for i in (1..v.len()).rev() {
        let j = (rnd() % (i as u64 + 1)) as usize;
        v.swap(i, j);
    }
    v
}

pub fn text_like(n: usize, seed: u32) -> Vec<u8> {
    let mut v = Vec::with_capacity(n + 64);
    let mut i = seed;
    while v.len() < n {
        v.extend_from_slice(format!("record {} of {}: status={} value={}\n", i % 1013, seed, ["ok", "failed", "retry"][(i % 3) as usize], i.wrapping_mul(2654435761) % 99991).as_bytes());
        i += 1;
    }
    v.truncate(n);
    v
}

/// no 5-byte window occurs twice (so the match finder, whose keys are 5 bytes, finds nothing) while the bytes come
/// from 64 values with a triangular distribution, so that the Huffman coder clearly beats raw literals at every
/// length above a few hundred bytes. Deterministic in (n, salt).
pub fn skewed_unique(n: usize, salt: u32) -> Vec<u8> {
    let mut rnd = xorshift((salt as u64).wrapping_mul(0x9E37_79B9).wrapping_add(0x1234_5678_9ABC));
    let mut seen: std::collections::HashSet<u64> = std::collections::HashSet::with_capacity(n);
    let mut v: Vec<u8> = Vec::with_capacity(n);
    while v.len() < n {
        let mut tries = 0;
        loop {
            let r = rnd();
            let b = 0x20 + ((r & 63).min((r >> 8) & 63)) as u8;
            if v.len() >= 4 {
                let l = v.len();
                let k = (v[l - 4] as u64) << 32 | (v[l - 3] as u64) << 24 | (v[l - 2] as u64) << 16 | (v[l - 1] as u64) << 8 | b as u64;
                if !seen.insert(k) {
                    tries += 1;
                    assert!(tries < 10_000, "skewed_unique: cannot extend without a repeat");
                    continue;
                }
            }
            v.push(b);
            break;
        }
    }
    v
}
