//! Worker subprocesses for sweeps over hostile input: address-space limit, per-case watchdog, and a shared
//! progress word so that the parent knows which case killed a worker.
use serde_json::{json, Value};
use std::io::Read;
use std::process::{Command, Stdio};
use std::sync::atomic::{AtomicU64, Ordering};

pub const EXIT_HANG: i32 = 86;

/// progress word shared with the parent through an mmap'ed file: the global index of the case being run
pub struct Progress {
    ptr: *mut u64,
    started: &'static AtomicU64,
}
unsafe impl Send for Progress {}
unsafe impl Sync for Progress {}

static CASE_STARTED_MS: AtomicU64 = AtomicU64::new(0);
static T0: std::sync::OnceLock<std::time::Instant> = std::sync::OnceLock::new();
fn now_ms() -> u64 {
    T0.get_or_init(std::time::Instant::now).elapsed().as_millis() as u64 + 1
}

impl Progress {
    pub fn open(path: &str) -> Progress {
        use std::os::unix::io::AsRawFd;
        let f = std::fs::OpenOptions::new().read(true).write(true).create(true).truncate(false).open(path).expect("progress file");
        f.set_len(16).unwrap();
        let ptr = unsafe { libc::mmap(std::ptr::null_mut(), 16, libc::PROT_READ | libc::PROT_WRITE, libc::MAP_SHARED, f.as_raw_fd(), 0) };
        assert!(ptr != libc::MAP_FAILED);
        Progress { ptr: ptr as *mut u64, started: &CASE_STARTED_MS }
    }
    #[inline]
    pub fn begin_case(&self, idx: u64) {
        unsafe { std::ptr::write_volatile(self.ptr, idx + 1) };
        self.started.store(now_ms(), Ordering::Relaxed);
    }
    /// cases completed so far (read by the parent if the worker dies)
    #[inline]
    pub fn completed(&self, n: u64) {
        unsafe { std::ptr::write_volatile(self.ptr.add(1), n) };
    }
    pub fn idle(&self) {
        self.started.store(0, Ordering::Relaxed);
    }
}

/// in a worker: limit the address space and start the watchdog
/// per-case override of the worker's watchdog (0 = use the worker's default); set before `begin_case`
pub static CASE_LIMIT_S: AtomicU64 = AtomicU64::new(0);

pub fn worker_init(as_limit_bytes: u64, watchdog_s: u64) {
    // the AddressSanitizer build (thorough tier of C03, tools/build.py) reserves terabytes of shadow address space:
    // no address-space limit there; its heap is bounded by the sanitizer's own options instead
    if std::env::var("VERIF_ASAN_BUILD").is_err() {
        unsafe {
            let lim = libc::rlimit { rlim_cur: as_limit_bytes, rlim_max: as_limit_bytes };
            libc::setrlimit(libc::RLIMIT_AS, &lim);
        }
    }
    std::thread::spawn(move || loop {
        std::thread::sleep(std::time::Duration::from_millis(200));
        let s = CASE_STARTED_MS.load(Ordering::Relaxed);
        let watchdog_s = match CASE_LIMIT_S.load(Ordering::Relaxed) {
            0 => watchdog_s,
            o => o,
        };
        if s != 0 && now_ms() > s + watchdog_s * 1000 {
            eprintln!("WATCHDOG: case running for more than {watchdog_s}s");
            std::process::exit(EXIT_HANG);
        }
    });
}

pub struct WorkerResult {
    pub shard: usize,
    pub output: Option<Value>,
    /// Some((global case index, how it died)) if the worker did not finish
    pub died: Option<(u64, String)>,
    /// cases a dead worker had completed
    pub partial_evals: u64,
}

fn read_progress(path: &str) -> (u64, u64) {
    let mut b = [0u8; 16];
    if let Ok(mut f) = std::fs::File::open(path) {
        let _ = f.read_exact(&mut b);
    }
    (u64::from_le_bytes(b[..8].try_into().unwrap()), u64::from_le_bytes(b[8..].try_into().unwrap()))
}

/// run `nshards` workers `zv <prop> --worker ...`; each prints one JSON document on stdout. A worker that dies
/// is restarted after the case that killed it (up to `max_restarts` times per shard).
pub fn run_workers(prop: &str, tier: &str, nshards: usize, extra: &[String], max_restarts: usize) -> Vec<WorkerResult> {
    let exe = std::env::current_exe().expect("current exe");
    let work = crate::ev::verif_dir().join(".work").join(format!("pool-{}-{}", prop, std::process::id()));
    std::fs::create_dir_all(&work).expect("work dir");
    let spawn = |shard: usize, resume_after: Option<u64>| {
        let pf = work.join(format!("progress-{shard}"));
        let _ = std::fs::remove_file(&pf);
        let mut c = Command::new(&exe);
        c.arg(prop).arg("--tier").arg(tier).arg("--worker").arg(format!("{shard}/{nshards}")).arg("--progress").arg(&pf);
        if let Some(r) = resume_after {
            c.arg("--resume-after").arg(r.to_string());
        }
        c.args(extra);
        // output goes to files, not pipes: the workers are waited for one after the other, and a worker that
        // reports many panics would otherwise block on a full pipe until its watchdog fires
        let (of, ef) = (work.join(format!("stdout-{shard}")), work.join(format!("stderr-{shard}")));
        c.stdout(Stdio::from(std::fs::File::create(&of).expect("worker stdout file"))).stderr(Stdio::from(std::fs::File::create(&ef).expect("worker stderr file")));
        (c.spawn().expect("spawn worker"), pf)
    };
    let mut results = vec![];
    let mut running: Vec<(usize, std::process::Child, std::path::PathBuf, usize)> = (0..nshards)
        .map(|s| {
            let (c, pf) = spawn(s, None);
            (s, c, pf, 0)
        })
        .collect();
    struct Out {
        status: std::process::ExitStatus,
        stderr: Vec<u8>,
    }
    while let Some((shard, mut child, pf, restarts)) = running.pop() {
        let status = child.wait().expect("wait worker");
        let stdout = String::from_utf8_lossy(&std::fs::read(work.join(format!("stdout-{shard}"))).unwrap_or_default()).to_string();
        let mut stderr = std::fs::read(work.join(format!("stderr-{shard}"))).unwrap_or_default();
        if stderr.len() > 4096 {
            stderr.drain(..stderr.len() - 4096);
        }
        let out = Out { status, stderr };
        let code = out.status.code();
        if code == Some(0) {
            match serde_json::from_str::<Value>(stdout.trim()) {
                Ok(v) => results.push(WorkerResult { shard, output: Some(v), died: None, partial_evals: 0 }),
                Err(e) => results.push(WorkerResult { shard, output: None, died: Some((u64::MAX, format!("worker output unreadable: {e}: {}", crate::ev::truncate(&stdout, 200)))), partial_evals: 0 }),
            }
            continue;
        }
        let (p, done) = read_progress(pf.to_str().unwrap());
        let how = match code {
            Some(EXIT_HANG) => "watchdog expired (hang)".to_string(),
            Some(c) => format!("exit status {c}: {}", crate::ev::truncate(String::from_utf8_lossy(&out.stderr).trim(), 300)),
            None => {
                use std::os::unix::process::ExitStatusExt;
                format!("killed by signal {:?} (abort / out of memory): {}", out.status.signal(), crate::ev::truncate(String::from_utf8_lossy(&out.stderr).trim(), 300))
            }
        };
        if p == 0 {
            results.push(WorkerResult { shard, output: None, died: Some((u64::MAX, format!("worker died before its first case: {how}"))), partial_evals: 0 });
            continue;
        }
        let idx = p - 1;
        // partial results of a dead worker are lost; record the death and resume after the fatal case
        results.push(WorkerResult { shard, output: None, died: Some((idx, how)), partial_evals: done });
        if restarts < max_restarts {
            let (c, pf) = spawn(shard, Some(idx));
            running.push((shard, c, pf, restarts + 1));
        }
    }
    let _ = std::fs::remove_dir_all(&work);
    results
}

/// run a single case in a fresh subprocess (confirmation of a death); returns how it ended
pub fn run_single(prop: &str, tier: &str, idx: u64, extra: &[String]) -> String {
    let exe = std::env::current_exe().expect("current exe");
    let work = crate::ev::verif_dir().join(".work");
    let _ = std::fs::create_dir_all(&work);
    let pf = work.join(format!("progress-single-{}-{}", std::process::id(), idx));
    let out = Command::new(&exe).arg(prop).arg("--tier").arg(tier).arg("--worker").arg("0/1").arg("--progress").arg(&pf).arg("--only").arg(idx.to_string()).args(extra).output().expect("spawn single");
    let _ = std::fs::remove_file(&pf);
    match out.status.code() {
        Some(0) => format!("completed: {}", crate::ev::truncate(String::from_utf8_lossy(&out.stdout).trim(), 300)),
        Some(EXIT_HANG) => "watchdog expired (hang)".into(),
        Some(c) => format!("exit status {c}"),
        None => {
            use std::os::unix::process::ExitStatusExt;
            format!("killed by signal {:?}", out.status.signal())
        }
    }
}

#[derive(Clone, Debug, Default)]
pub struct WorkerArgs {
    pub shard: usize,
    pub nshards: usize,
    pub progress: String,
    pub resume_after: Option<u64>,
    pub only: Option<u64>,
}

pub fn worker_json(evals: u64, nontrivial: u64, viol: &[crate::ev::Violation], extra: Value) -> String {
    json!({"evals": evals, "nontrivial": nontrivial, "violations": viol.iter().map(|v| json!({"identity": v.identity, "what": v.what, "replay": v.replay})).collect::<Vec<_>>(), "extra": extra}).to_string()
}
