//! C07 — a reused decoder behaves exactly like a fresh one. Histories of up to two episodes (frame x how far it
//! was decoded x how it ended) followed by a field-directed probe; the probe's complete outcome must equal the
//! outcome on a brand-new decoder with the same dictionaries registered.
use crate::c12::{merge, Acc};
use crate::ev::{show, Run, Tier};
use crate::fe;
use crate::gen::{self, Arch, LitKind, ModeKind, Pattern};
use crate::meter::{self, guarded};
use ruzstd::decoding::{BlockDecodingStrategy as S, Dictionary, FrameDecoder};
use serde_json::{json, Value};
use zmodel::frame::*;

#[derive(Clone)]
pub struct Named {
    pub name: String,
    pub bytes: Vec<u8>,
}

#[derive(Clone, Copy, Debug, PartialEq)]
pub enum Progress {
    HeaderOnly,
    OneBlock,
    AllUndrained,
    Drained,
    /// decode everything through decode_all_to_vec
    WholeCall,
}
#[derive(Clone, Debug)]
pub struct Episode {
    pub frame: usize,
    pub progress: Progress,
}

fn comp(lits: LitKind, modes: [ModeKind; 3], pattern: Pattern) -> Arch {
    Arch::Comp { lits, count_form: 1, modes, pattern }
}

pub struct World {
    pub setters: Vec<Named>,
    pub probes: Vec<Named>,
    pub dict_a: Vec<u8>,
    pub dict_b: Vec<u8>,
}

pub fn world() -> World {
    let da = gen::model_dict(77);
    let db = {
        let mut d = gen::model_dict(78);
        d.rep = [3, 6, 11];
        d.content = (0..48u32).map(|i| (i * 11 + 1) as u8).collect();
        d.huf_weights = gen::huf_weights(true);
        d
    };
    let frame = |path: &[Arch], header: Header, dict: Option<&zmodel::dict::Dict>| -> Vec<u8> {
        let (blocks, _) = gen::realise_path(path, dict).expect("path");
        encode_frame(&FrameSpec { header, blocks }, dict).expect("frame")
    };
    let big = Header::window(13 << 3, false);
    let mut setters: Vec<Named> = vec![];
    fn addf(v: &mut Vec<Named>, n: &str, b: Vec<u8>) {
        v.push(Named { name: n.into(), bytes: b });
    }
    macro_rules! add {
        ($n:expr, $b:expr) => {{
            let b = $b;
            addf(&mut setters, $n, b)
        }};
    }
    add!("huffman table (FSE-described, 20 symbols) + FSE tables", frame(&[comp(LitKind::Huff(4, 1, true), [ModeKind::FseMaxLog; 3], Pattern::SameCodes)], big.clone(), None));
    add!("huffman table (direct) + RLE symbols for LL/OF/ML", frame(&[comp(LitKind::Huff(1, 0, false), [ModeKind::Rle; 3], Pattern::SameCodes)], big.clone(), None));
    add!("FSE LL only, predefined others, offsets (7,9,11)", frame(&[Arch::Raw(5), comp(LitKind::Raw(1), [ModeKind::Fse, ModeKind::Pre, ModeKind::Pre], Pattern::Repeats)], big.clone(), None));
    add!("RLE OF, FSE ML", frame(&[comp(LitKind::Raw(1), [ModeKind::Pre, ModeKind::Rle, ModeKind::Fse], Pattern::SameCodes)], big.clone(), None));
    add!("64 KiB window full of 0xAA, then more", encode_frame(&FrameSpec { header: Header::window(6 << 3, true), blocks: vec![Block::Rle(0xAA, 65536), Block::Rle(0xAA, 65536), Block::Raw(b"tail".to_vec())] }, None).unwrap());
    add!("dictionary A frame (treeless, repeat modes, repeat offsets)", frame(&[comp(LitKind::Treeless(1, 0), [ModeKind::Rep; 3], Pattern::Repeats)], Header { window_desc: Some(0), dict_id: Some((1, 77)), checksum: true, ..Default::default() }, Some(&da)));
    add!("dictionary B frame reaching into the dictionary content", {
        let blocks = vec![Block::Compressed { lits: Lits::Raw(b"xy".to_vec(), 0), count_form: 1, modes: pre(), seqs: vec![Seq { ll: 1, ml: 30, of: 3 + 40 }], pick: 0 }];
        encode_frame(&FrameSpec { header: Header { window_desc: Some(0), dict_id: Some((1, 78)), ..Default::default() }, blocks }, Some(&db)).unwrap()
    });
    add!("checksum frame, several blocks, 1 KiB window", crate::seeds::windowed(true, 3).frame);
    add!("60 raw blocks (block counter)", encode_frame(&FrameSpec { header: Header::window(0, false), blocks: (0..60).map(|i| Block::Raw(vec![i as u8; 3])).collect() }, None).unwrap());
    add!("single segment, content size 300", encode_frame(&FrameSpec { header: Header { window_desc: None, fcs: Some((2, 300)), ..Default::default() }, blocks: vec![Block::Rle(b'q', 300)] }, None).unwrap());
    // failing / rejected frames
    let good = setters[0].bytes.clone();
    add!("truncated in the second block", {
        let f = crate::seeds::windowed(false, 3).frame;
        f[..f.len() * 2 / 3].to_vec()
    });
    add!("corrupt compressed block after a valid one", {
        let mut f = setters[1].bytes.clone();
        f[6] &= !1; // first block no longer last
        f.extend_from_slice(&[0x15, 0x00, 0x00, 0xFF, 0xFF]);
        f
    });
    add!("window above the limit", vec![0x28, 0xB5, 0x2F, 0xFD, 0x00, 0xF8, 0x01, 0x00, 0x00]);
    add!("unregistered dictionary id", {
        let mut f = setters[5].bytes.clone();
        f[6] = 0xEE;
        f
    });
    add!("bad magic", {
        let mut f = good.clone();
        f[0] ^= 0xFF;
        f
    });
    add!("empty input", vec![]);

    // probes: frames whose outcome depends on state that must not survive
    let mut probes: Vec<Named> = vec![];
    let mut addp = |n: &str, b: Vec<u8>| probes.push(Named { name: n.into(), bytes: b });
    let raw_frame = |blocks: &[Block], st: &mut EncState, header: Header| -> Vec<u8> {
        let mut f = encode_header(&header).unwrap();
        f.extend(encode_blocks(blocks, st).unwrap());
        f
    };
    for (name, weights) in [("treeless first block (needs a leaked direct table)", gen::huf_weights(false)), ("treeless first block (needs a leaked 20-symbol table)", gen::huf_weights(true))] {
        let mut st = EncState { huf: Some(weights.clone()), ..Default::default() };
        let alphabet: Vec<u8> = (0..weights.len()).filter(|&s| weights[s] > 0).map(|s| s as u8).collect();
        let lits: Vec<u8> = (0..12).map(|i| alphabet[i % alphabet.len()]).collect();
        addp(name, raw_frame(&[Block::Compressed { lits: Lits::Treeless { lits, streams: 1, size_format: 0 }, count_form: 1, modes: pre(), seqs: vec![], pick: 0 }], &mut st, Header::window(0, false)));
    }
    // Repeat mode for each table separately, as leaked RLE symbol and as leaked FSE table
    for i in 0..3 {
        for kind in 0..2 {
            let mut st = EncState::default();
            let mut modes = pre();
            let seq = Seq { ll: 4, ml: 4, of: 4 };
            let codes = seq_codes(&seq).unwrap();
            st.tabs[i] = Some(if kind == 0 { TabKind::Rle(codes[i].0) } else { TabKind::Fse(zmodel::fse::build(&gen::normalise(&{ let mut c = vec![0usize; codes[i].0 as usize + 1]; c[codes[i].0 as usize] = 3; c[0] += 1; c }, 5, 1).0, 5)) });
            modes[i] = Mode::Repeat;
            addp(&format!("Repeat mode for table {} in the first block (needs a leaked {} table)", ["LL", "OF", "ML"][i], if kind == 0 { "RLE" } else { "FSE" }), raw_frame(&[Block::Compressed { lits: Lits::Raw(b"abcdefgh".to_vec(), 0), count_form: 1, modes, seqs: vec![seq], pick: 0 }], &mut st, Header::window(0, false)));
        }
    }
    // repeat offsets in the very first sequence: valid frames whose content depends on the initial history (1,4,8)
    for (ll, of) in [(9u32, 1u32), (9, 2), (9, 3), (0, 1), (0, 2)] {
        let blocks = vec![Block::Raw(b"0123456789".to_vec()), Block::Compressed { lits: Lits::Raw(b"abcdefghijkl".to_vec(), 0), count_form: 1, modes: pre(), seqs: vec![Seq { ll, ml: 5, of }], pick: 0 }];
        addp(&format!("first sequence uses repeat code {of} with ll={ll}"), encode_frame(&FrameSpec { header: Header::window(0, true), blocks }, None).unwrap());
    }
    // matches reaching before the first byte of the frame (invalid unless window bytes / dictionary content leaked)
    for off in [1u32, 3, 40, 1000] {
        let mut st = EncState::default();
        addp(&format!("first match reaches {off} byte(s) before the frame"), raw_frame(&[Block::Compressed { lits: Lits::Raw(b"ab".to_vec(), 0), count_form: 1, modes: pre(), seqs: vec![Seq { ll: 2, ml: 6, of: 3 + 2 + off }], pick: 0 }], &mut st, Header::window(0, false)));
    }
    addp("needs dictionary A", setters[5].bytes.clone());
    addp("needs an unregistered dictionary", setters[13].bytes.clone());
    addp("plain valid frame, small window, checksum", crate::seeds::windowed(true, 2).frame);
    addp("plain valid frame, 8 MiB window, no checksum", setters[2].bytes.clone());
    addp("single segment frame", setters[9].bytes.clone());
    addp("empty frame with checksum", encode_frame(&FrameSpec { header: Header { window_desc: None, fcs: Some((1, 0)), checksum: true, ..Default::default() }, blocks: vec![Block::Raw(vec![])] }, None).unwrap());
    addp("truncated frame", setters[10].bytes.clone());
    World { setters, probes, dict_a: da.serialize().unwrap(), dict_b: db.serialize().unwrap() }
}

fn apply_episode(dec: &mut FrameDecoder, w: &World, e: &Episode) {
    let f = &w.setters[e.frame].bytes;
    let _ = guarded(|| {
        if e.progress == Progress::WholeCall {
            let mut out = Vec::with_capacity(1 << 18);
            let _ = dec.decode_all_to_vec(f, &mut out);
            return;
        }
        let mut src = f.as_slice();
        if dec.reset(&mut src).is_err() {
            return;
        }
        match e.progress {
            Progress::HeaderOnly => {}
            Progress::OneBlock => {
                let _ = dec.decode_blocks(&mut src, S::UptoBlocks(1));
            }
            Progress::AllUndrained => {
                let _ = dec.decode_blocks(&mut src, S::All);
            }
            _ => {
                let _ = dec.decode_blocks(&mut src, S::All);
                let _ = dec.collect();
                let mut b = [0u8; 64];
                while let Ok(n) = std::io::Read::read(dec, &mut b) {
                    if n == 0 {
                        break;
                    }
                }
            }
        }
    });
}

fn fresh(w: &World, ndicts: usize) -> FrameDecoder {
    let mut d = FrameDecoder::new();
    if ndicts >= 1 {
        d.add_dict(Dictionary::decode_dict(&w.dict_a).unwrap()).unwrap();
    }
    if ndicts >= 2 {
        d.add_dict(Dictionary::decode_dict(&w.dict_b).unwrap()).unwrap();
    }
    d
}

const PROBE_FES: [usize; 3] = [2, 0, 7];

fn probe(dec: &mut FrameDecoder, w: &World, p: usize, fe_i: usize) -> String {
    let o = fe::run_on(dec, PROBE_FES[fe_i], &w.probes[p].bytes, 1 << 16);
    format!("{:?}|{}|{:?}|{}|{}|{:?}|{:?}|blocks {}|{:x}", o.end, o.delivered.len(), o.consumed, o.finished, o.content_size, o.checksum_from_data, o.checksum_calculated, o.blocks, zmodel::xxh::xxh64(&o.delivered))
}

pub fn main(tier: Tier, replay: Option<Value>) -> i32 {
    if replay.is_some() {
        println!("C07 replays are history descriptions; rerun ./check C07");
        return 2;
    }
    let mut run = Run::new("C07", "model_checking", tier);
    let w = world();
    let th = meter::threads();
    let mut episodes: Vec<Episode> = vec![];
    for f in 0..w.setters.len() {
        for p in [Progress::HeaderOnly, Progress::OneBlock, Progress::AllUndrained, Progress::Drained, Progress::WholeCall] {
            episodes.push(Episode { frame: f, progress: p });
        }
    }
    run.set("episodes", episodes.len() as u64);
    run.set("setter_frames", json!(w.setters.iter().map(|s| s.name.clone()).collect::<Vec<_>>()));
    run.set("probes", json!(w.probes.iter().map(|s| s.name.clone()).collect::<Vec<_>>()));
    // reference outcomes on fresh decoders; sanity: state-dependent invalid probes must fail there
    let mut refs = vec![vec![vec![String::new(); PROBE_FES.len()]; w.probes.len()]; 3];
    for nd in 0..3 {
        for p in 0..w.probes.len() {
            for f in 0..PROBE_FES.len() {
                refs[nd][p][f] = probe(&mut fresh(&w, nd), &w, p, f);
            }
        }
    }
    for (p, pr) in w.probes.iter().enumerate() {
        let must_fail = pr.name.contains("needs a leaked") || pr.name.contains("before the frame") || pr.name.contains("unregistered") || pr.name.contains("truncated");
        let ok = refs[0][p][0].starts_with("Ok");
        if must_fail && ok {
            run.violation(crate::ev::Violation { identity: format!("fresh:{}", crate::ev::truncate(&pr.name, 50)), what: format!("probe [{}] is invalid on a fresh decoder but decodes: {}", pr.name, refs[0][p][0]), replay: json!({"probe": pr.name, "frame": show(&pr.bytes)}) });
        }
        if !must_fail && !pr.name.contains("dictionary A") && !ok {
            run.machinery_error(format!("probe [{}] should be valid on a fresh decoder: {}", pr.name, refs[0][p][0]));
        }
    }
    // histories: states = decoders after 0, 1, 2 episodes; every probe x front end is a transition out of each
    let mut hists: Vec<Vec<usize>> = vec![vec![]];
    for a in 0..episodes.len() {
        hists.push(vec![a]);
    }
    for a in 0..episodes.len() {
        for b in 0..episodes.len() {
            hists.push(vec![a, b]);
        }
    }
    if tier == Tier::Thorough {
        // every history of three episodes (512 000 histories x 3 dictionary configurations x 84 probe runs)
        for a in 0..episodes.len() {
            for b in 0..episodes.len() {
                for c in 0..episodes.len() {
                    hists.push(vec![a, b, c]);
                }
            }
        }
    }
    let total = hists.len() * 3;
    let accs = meter::par_fold(total, th, Acc::default, |a, k| {
        let h = &hists[k / 3];
        let nd = k % 3;
        for p in 0..w.probes.len() {
            for f in 0..PROBE_FES.len() {
                a.evals += 1;
                let mut dec = fresh(&w, nd);
                for &e in h {
                    apply_episode(&mut dec, &w, &episodes[e]);
                }
                if !h.is_empty() {
                    a.nontrivial += 1;
                }
                let got = probe(&mut dec, &w, p, f);
                if got != refs[nd][p][f] {
                    let hd: Vec<String> = h.iter().map(|&e| format!("[{}] {:?}", w.setters[episodes[e].frame].name, episodes[e].progress)).collect();
                    a.bad(format!("leak:{}:after:{}", crate::ev::truncate(&w.probes[p].name, 44), h.last().map(|&e| crate::ev::truncate(&w.setters[episodes[e].frame].name, 30)).unwrap_or_default()), format!("history {:?} ({nd} dictionaries registered), then probe [{}] through {}: reused decoder gives {} but a fresh decoder gives {}", hd, w.probes[p].name, fe::FRONT_ENDS[PROBE_FES[f]], crate::ev::truncate(&got, 160), crate::ev::truncate(&refs[nd][p][f], 160)), json!({"history": hd, "dictionaries": nd, "probe": w.probes[p].name, "probe_frame": show(&w.probes[p].bytes), "front_end": fe::FRONT_ENDS[PROBE_FES[f]]}));
                }
            }
        }
    });
    merge(&mut run, "C07", "histories_then_probe_vs_fresh", accs, true);
    run.set("states", hists.len() as u64 * 3);
    run.set("transitions", run.get("evaluations"));
    run.set("traces_validated_against_impl", run.get("evaluations"));
    run.set("exhaustive", true);
    run.set("rule", "states = decoders after every history of <= 2 episodes (thorough: every history of 3 episodes) over (16 setter frames x 5 progress points: header only, one block, all blocks undrained, drained, whole multi-frame call) with 0/1/2 dictionaries registered; setter frames each put one kind of state into the decoder (Huffman tables of both description kinds, FSE / RLE tables per table, offset history, a 64 KiB window of 0xAA, dictionary tables and content, checksum, block counter, single segment) or fail / are rejected at a chosen point; transitions = 28 probes x 3 front ends, including frames that are INVALID on a fresh decoder and become decodable only if that state leaked; oracle = the probe's complete outcome (result and error text, bytes, both checksums, consumed count, blocks_decoded(), content size) equals the outcome on a fresh decoder");
    run.sample(json!({"history": ["[huffman table (direct) + RLE symbols for LL/OF/ML] AllUndrained"], "probe": "Repeat mode for table OF in the first block (needs a leaked RLE table)", "expected": "same error as on a fresh decoder"}));
    run.assume("the state after a failed reset is not compared, only the outcome of the next frame");
    run.finish()
}
