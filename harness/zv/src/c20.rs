//! C20 — the dictionary builder terminates without panic and respects the requested size.
use crate::ev::{Run, Tier, Violation};
use crate::meter::{self, guarded};
use crate::pool::{self, WorkerArgs};
use serde_json::{json, Value};
use std::io::Read;

/// a source that hands out at most `k` bytes per call and counts how often it is asked again after it has
/// reported the end of the data: a builder that keeps polling an exhausted source does not terminate
struct Slow<'a> {
    data: &'a [u8],
    k: usize,
    polled_after_end: usize,
}
impl<'a> Slow<'a> {
    fn new(data: &'a [u8], k: usize) -> Self {
        Slow { data, k, polled_after_end: 0 }
    }
}
/// the unchanged builder asks an exhausted source at most three more times, and reads into an empty buffer at most
/// once per call. After the first detection in a process the limit drops to 10, so that a change which makes every
/// case loop does not also make the whole sweep take for ever.
pub const POLL_LIMIT: usize = 1_000;
static LIMIT_NOW: std::sync::atomic::AtomicUsize = std::sync::atomic::AtomicUsize::new(POLL_LIMIT);
impl Read for Slow<'_> {
    fn read(&mut self, buf: &mut [u8]) -> std::io::Result<usize> {
        let n = buf.len().min(self.k).min(self.data.len());
        if self.data.is_empty() || buf.is_empty() {
            self.polled_after_end += 1;
            let limit = LIMIT_NOW.load(std::sync::atomic::Ordering::Relaxed);
            if self.polled_after_end > limit {
                LIMIT_NOW.store(10, std::sync::atomic::Ordering::Relaxed);
                panic!("NONTERMINATION: the source was asked more than {limit} times although it is exhausted or the buffer offered is empty");
            }
        }
        buf[..n].copy_from_slice(&self.data[..n]);
        self.data = &self.data[n..];
        Ok(n)
    }
}

fn content(kind: usize, n: usize) -> Vec<u8> {
    match kind {
        0 => vec![b'A'; n],
        1 => (0..n).map(|i| i as u8).collect(),
        2 => (0..n).map(|i| b"0123456789abcdef"[i % 16]).collect(),
        3 => (0..n).map(|i| b"0123456789abcdefg"[i % 17]).collect(),
        _ => crate::cmp::text_like(n, 3),
    }
}
const CONTENTS: [&str; 5] = ["constant", "ramp", "period 16", "period 17", "text"];
const READERS: [&str; 6] = ["whole slice", "1 byte per read", "100 bytes per read", "7 bytes per read", "15 bytes per read", "3 bytes per read"];
const CHUNK: [usize; 6] = [usize::MAX, 1, 100, 7, 15, 3];

#[derive(Clone, Debug)]
pub struct Case {
    len: usize,
    estimate: usize,
    dict_size: usize,
    kind: usize,
    reader: usize,
    /// non-empty: the source is a chain of that many files (as create_raw_dict_from_dir builds it), `len` their sum
    files: Vec<usize>,
    /// go through create_raw_dict_from_dir on a real directory (nested when the flag is set)
    real_dir: Option<bool>,
}

pub fn cases(tier: Tier) -> Vec<Case> {
    let mut lens: Vec<usize> = (0..=300).collect();
    lens.extend_from_slice(&[1000, 2047, 2048, 2049, 4096, 10_000]);
    if tier == Tier::Thorough {
        lens.extend_from_slice(&[30_000, 100_000]);
    }
    let mut v = vec![];
    for &len in &lens {
        let mut ests = vec![0usize, 15, 16, 17, 31, 32, len / 2, len, 2 * len, 1_000_000, 1 << 32, (1 << 32) + 2048];
        ests.sort();
        ests.dedup();
        for est in ests {
            for dict_size in [0usize, 1, 15, 16, 17, 64, 2047, 2048, 2049, 4096, 1_000_000] {
                for kind in 0..CONTENTS.len() {
                    for reader in 0..READERS.len() {
                        // estimates of 4 GiB make the builder allocate a 16 MiB sample and score segments
                        // quadratically in it: a few source lengths only, one content, one reader
                        if est >= 1 << 32 && !([0usize, 17, 300, 2048].contains(&len) && kind == 4 && reader == 0) {
                            continue;
                        }
                        // a million-byte estimate for a multi-kilobyte source: seconds per case; text only
                        if est == 1_000_000 && len > 300 && (kind != 4 || reader != 0) {
                            continue;
                        }
                        // large sources: one reader, to keep the quadratic segment scoring affordable
                        if len > 5000 && (reader != 0 || kind % 2 == 1) {
                            continue;
                        }
                        if len > 300 && reader == 1 && kind != 4 {
                            continue;
                        }
                        // chunk sizes that step over the reservoir size without meeting it: small sources, two contents
                        if reader >= 3 && (len > 300 && !(kind == 4 && [1000, 2049, 10_000].contains(&len)) || !(kind == 0 || kind == 4)) {
                            continue;
                        }
                        v.push(Case { len, estimate: est, dict_size, kind, reader, files: vec![], real_dir: None });
                    }
                }
            }
        }
    }
    // the shape of the sample: for estimates of 4 KiB and more the builder draws a sample of estimate / 256 bytes and
    // scores it in segments of 2048 bytes, k-mers of 16 bytes. Every sample size whose last segment is empty, shorter
    // than a k-mer (1, 14, 15), exactly one k-mer, or longer, with one, two and three segments - each with a source
    // longer than the sample (epochs are scored) and one that the sampler drains (none is)
    for sample in [17usize, 31, 32, 33, 100, 2047, 2048, 2049, 2053, 2062, 2063, 2064, 2065, 4096, 4097, 4111] {
        let mut ests = vec![256 * sample];
        if sample == 2063 {
            ests.push(256 * sample + 255);
        }
        let longer: Vec<usize> = [300usize, 1000, 4096, 10_000].into_iter().filter(|l| *l > sample).take(2).collect();
        let drained = [300usize, 1000, 4096].into_iter().filter(|l| *l <= sample).last();
        for est in ests {
            for &len in longer.iter().chain(drained.iter()) {
                for dict_size in [64usize, 4096] {
                    for kind in [0usize, 4] {
                        for reader in [0usize, 2] {
                            if sample > 2100 && reader != 0 {
                                continue;
                            }
                            v.push(Case { len, estimate: est, dict_size, kind, reader, files: vec![], real_dir: None });
                        }
                    }
                }
            }
        }
    }
    // a chain of files, as create_raw_dict_from_dir hands it to the builder (every file end is a short read):
    // every vector of 1..=3 file sizes over a set that straddles the 16-byte reservoir
    const SIZES: [usize; 9] = [0, 1, 7, 10, 15, 16, 17, 100, 5000];
    let mut vecs: Vec<Vec<usize>> = vec![];
    for a in SIZES {
        vecs.push(vec![a]);
        for b in SIZES {
            vecs.push(vec![a, b]);
            for c in SIZES {
                vecs.push(vec![a, b, c]);
            }
        }
    }
    for files in &vecs {
        let len: usize = files.iter().sum();
        for dict_size in [0usize, 16, 64, 2048] {
            for kind in [0usize, 4] {
                for reader in [0usize, 3] {
                    v.push(Case { len, estimate: len, dict_size, kind, reader, files: files.clone(), real_dir: None });
                }
            }
        }
    }
    // the real directory walk: up to two files (flat and nested), an empty directory
    v.push(Case { len: 0, estimate: 0, dict_size: 64, kind: 4, reader: 0, files: vec![], real_dir: Some(false) });
    for files in vecs.iter().filter(|f| f.len() <= 2 && f.iter().all(|s| [0usize, 10, 16, 5000].contains(s))) {
        for nested in [false, true] {
            for dict_size in [16usize, 2048] {
                v.push(Case { len: files.iter().sum(), estimate: files.iter().sum(), dict_size, kind: 4, reader: 0, files: files.clone(), real_dir: Some(nested) });
            }
        }
    }
    v
}

fn run_case(c: &Case, seed: u64) -> Result<Vec<u8>, String> {
    let data = content(c.kind, c.len);
    fastrand::seed(seed);
    if let Some(nested) = c.real_dir {
        let root = crate::ev::verif_dir().join(".work").join(format!("c20-{}", std::process::id()));
        let _ = std::fs::remove_dir_all(&root);
        let mut at = 0;
        for (i, n) in c.files.iter().enumerate() {
            let d = if nested && i % 2 == 1 { root.join("sub").join("deeper") } else { root.clone() };
            std::fs::create_dir_all(&d).map_err(|e| format!("MODEL: {e}"))?;
            std::fs::write(d.join(format!("sample{i}.txt")), &data[at..at + n]).map_err(|e| format!("MODEL: {e}"))?;
            at += n;
        }
        std::fs::create_dir_all(&root).map_err(|e| format!("MODEL: {e}"))?;
        // files cannot count how often they are polled: the call runs on its own thread and is given 20 s; after
        // the first call that does not come back the remaining directory cases of this worker are skipped (the
        // stuck thread keeps a core busy until the worker exits)
        static DIR_HUNG: std::sync::atomic::AtomicBool = std::sync::atomic::AtomicBool::new(false);
        if DIR_HUNG.load(std::sync::atomic::Ordering::Relaxed) {
            let _ = std::fs::remove_dir_all(&root);
            return Err("SKIPPED".into());
        }
        let (tx, rx) = std::sync::mpsc::channel();
        let (root2, dict_size) = (root.clone(), c.dict_size);
        std::thread::spawn(move || {
            fastrand::seed(seed);
            let r = guarded(|| {
                let mut out = Vec::new();
                let r = ruzstd::dictionary::create_raw_dict_from_dir(&root2, &mut out, dict_size);
                (out, r.map_err(|e| e.to_string()))
            });
            let _ = tx.send(r);
        });
        let r = match rx.recv_timeout(std::time::Duration::from_secs(20)) {
            Ok(r) => r,
            Err(_) => {
                DIR_HUNG.store(true, std::sync::atomic::Ordering::Relaxed);
                return Err("NONTERMINATION: create_raw_dict_from_dir did not return within 20 s".into());
            }
        };
        let _ = std::fs::remove_dir_all(&root);
        return match r {
            Ok((out, Ok(()))) => Ok(out),
            Ok((_, Err(e))) => Err(format!("create_raw_dict_from_dir returned an error for a readable directory: {e}")),
            Err(p) => Err(p),
        };
    }
    guarded(|| {
        let mut out = Vec::new();
        if c.files.is_empty() {
            ruzstd::dictionary::create_raw_dict_from_source(Slow::new(&data, CHUNK[c.reader]), c.estimate, &mut out, c.dict_size);
        } else {
            let mut chained: Box<dyn Read> = Box::new(std::io::empty());
            let mut at = 0;
            for n in &c.files {
                chained = Box::new(chained.chain(Slow::new(&data[at..at + n], CHUNK[c.reader])));
                at += n;
            }
            ruzstd::dictionary::create_raw_dict_from_source(chained, c.estimate, &mut out, c.dict_size);
        }
        out
    })
}

fn describe(c: &Case) -> String {
    let src = match (&c.real_dir, c.files.is_empty()) {
        (Some(nested), _) => format!("create_raw_dict_from_dir over a {} directory with files of {:?} bytes", if *nested { "nested" } else { "flat" }, c.files),
        (None, false) => format!("chain of sources of {:?} bytes", c.files),
        (None, true) => format!("source of {} bytes", c.len),
    };
    format!("{src} ({}, {}), size estimate {}, dictionary size {}", CONTENTS[c.kind], READERS[c.reader], c.estimate, c.dict_size)
}

fn worker(tier: Tier, wa: &WorkerArgs) -> i32 {
    pool::worker_init(8 << 30, 300);
    let cs = cases(tier);
    let prog = pool::Progress::open(&wa.progress);
    let seed: u64 = std::env::var("VERIF_SEED").ok().and_then(|s| s.parse().ok()).unwrap_or(1);
    let mut viol: Vec<Violation> = vec![];
    let mut evals = 0u64;
    let mut nontrivial = 0u64;
    let mut after_hang = 0u32;
    for (i, c) in cs.iter().enumerate() {
        let idx = i as u64;
        if let Some(o) = wa.only {
            if o != idx {
                continue;
            }
        } else if i % wa.nshards != wa.shard || wa.resume_after.map(|r| idx <= r).unwrap_or(false) {
            continue;
        }
        // once non-termination has been seen, every further case of this shape costs its full poll budget; the
        // verdict is in, a few hundred more cases are looked at and the shard stops
        if viol.iter().any(|v| v.identity.starts_with("hang:")) {
            after_hang += 1;
            if after_hang > 300 {
                break;
            }
        }
        // the quadratic segment scoring makes cases with huge estimates take seconds (tens of seconds under load);
        // everything else takes micro- to milliseconds
        pool::CASE_LIMIT_S.store(if c.estimate >= 1_000_000 || c.len > 5000 { 300 } else { 40 }, std::sync::atomic::Ordering::Relaxed);
        prog.begin_case(idx);
        prog.completed(evals);
        evals += 1;
        let mut bad = |identity: String, what: String| {
            if viol.len() < 12 && !viol.iter().any(|v| v.identity == identity) {
                viol.push(Violation { identity, what, replay: json!({"case_index": idx, "case": describe(c)}) });
            }
        };
        match run_case(c, seed) {
            Err(p) if p == "SKIPPED" => {}
            Err(p) if p.contains("NONTERMINATION") => bad(format!("hang:{}", if c.real_dir.is_some() { "from_dir" } else if c.files.is_empty() { "exhausted_source_polled" } else { "exhausted_chain_polled" }), format!("{}: does not terminate: {p}", describe(c))),
            Err(p) if p.starts_with("create_raw_dict_from_dir returned") => bad("from_dir:error".into(), format!("{}: {p}", describe(c))),
            Err(p) => bad(format!("panic:{}", p.rsplit(" @ ").next().unwrap_or("")), format!("{}: panic: {p}", describe(c))),
            Ok(out) => {
                if out.len() > c.dict_size {
                    let path = if c.estimate < 16 { "short-source copy" } else { "segment pool" };
                    bad(format!("size:{path}"), format!("{}: {} bytes were written, more than the requested dictionary size ({path} path)", describe(c), out.len()));
                } else if !out.is_empty() {
                    nontrivial += 1;
                }
                // the only randomness is owned: a second seed must give a result with the same verdict
                if let Ok(o2) = run_case(c, seed + 1) {
                    if (o2.len() > c.dict_size) != (out.len() > c.dict_size) {
                        bad("seed_dependent_verdict".into(), format!("{}: the verdict depends on the random seed ({} vs {} bytes)", describe(c), out.len(), o2.len()));
                    }
                }
            }
        }
    }
    prog.idle();
    println!("{}", pool::worker_json(evals, nontrivial, &viol, json!({})));
    0
}

pub fn main(tier: Tier, replay: Option<Value>, wa: Option<WorkerArgs>) -> i32 {
    if let Some(w) = wa {
        return worker(tier, &w);
    }
    if let Some(r) = replay {
        let idx = r["replay"]["case_index"].as_u64().unwrap_or(u64::MAX);
        let a = pool::run_single("C20", tier.name(), idx, &[]);
        let b = pool::run_single("C20", tier.name(), idx, &[]);
        println!("replay of case {idx}: {a}\n{b}");
        return if a != b { 2 } else if !a.starts_with("completed") || a.contains("\"violations\":[{") { println!("VIOLATION property=C20 replay=(given file)"); 1 } else { 0 };
    }
    let mut run = Run::new("C20", "exploration", tier);
    let cs = cases(tier);
    let results = pool::run_workers("C20", tier.name(), meter::threads(), &[], 6);
    let mut evals = 0;
    let mut nontrivial = 0;
    for r in results {
        evals += r.partial_evals;
        if let Some(o) = r.output {
            evals += o["evals"].as_u64().unwrap_or(0);
            nontrivial += o["nontrivial"].as_u64().unwrap_or(0);
            for v in o["violations"].as_array().cloned().unwrap_or_default() {
                run.violation(Violation { identity: v["identity"].as_str().unwrap_or("").to_string(), what: v["what"].as_str().unwrap_or("").to_string(), replay: v["replay"].clone() });
            }
        }
        if let Some((idx, how)) = r.died {
            if idx == u64::MAX {
                run.machinery_error(format!("worker {}: {how}", r.shard));
                continue;
            }
            let c = &cs[idx as usize];
            // a change that makes many cases hang would otherwise be confirmed one 40 s case after the other
            if run.violations_so_far() >= 4 {
                continue;
            }
            let c1 = pool::run_single("C20", tier.name(), idx, &[]);
            if c1.starts_with("completed") {
                run.machinery_error(format!("worker died at case {idx} ({how}) but the case completes alone"));
            } else {
                run.violation(Violation { identity: format!("{}:len{}", if c1.contains("hang") { "hang" } else { "abort" }, if c.len > 300 { "large" } else { "small" }), what: format!("{}: the process died ({how}; alone: {c1})", describe(c)), replay: json!({"case_index": idx, "case": describe(c)}) });
            }
        }
    }
    run.set("evaluations", evals);
    run.set("distinct_nontrivial", nontrivial);
    run.set("cases_planned", cs.len() as u64);
    run.set("exhaustive", true);
    run.set("rule", "create_raw_dict_from_source with the random generator seeded from VERIF_SEED (each case under two seeds): true source length every value 0..=300 and {1000, 2047, 2048, 2049, 4096, 10000 (+30000, 100000)} x size estimate {0, 15, 16, 17, 31, 32, len/2, len, 2*len, 10^6, 2^32, 2^32+2048} x dictionary size {0, 1, 15, 16, 17, 64, 2047, 2048, 2049, 4096, 10^6} x content {constant, ramp, period 16, period 17, text} x reader {whole slice, 1 / 100 bytes per read; 7 / 15 / 3 bytes per read (chunks that step over the reservoir size) for two contents}; then estimates 256*s for every sample size s in {17,31,32,33,100,2047,2048,2049,2053,2062,2063,2064,2065,4096,4097,4111} (the sample's last 2048-byte segment empty / shorter than a 16-byte k-mer / exactly one / longer; one to three segments) x sources longer than the sample and one the sampler drains x dictionary size {64,4096} x 2 contents x 2 readers; then every chain of 1..=3 sources with sizes from {0,1,7,10,15,16,17,100,5000} (what create_raw_dict_from_dir builds: each file end is a short read) x dictionary size {0,16,64,2048} x 2 contents x {whole, 7-byte reads}, and create_raw_dict_from_dir itself over real flat / nested directories with up to two files; oracle: returns (300 s watchdog in a worker process; 4 GiB and 10^6 estimates only for a few source lengths because the builder's segment scoring is quadratic in the sample), no panic, the source is not polled more than 1000 times after it reported its end (the unchanged builder asks at most three more times; the real-directory calls get 20 s on their own thread) (non-termination made finite), output.len() <= dict_size. non-trivial = a non-empty dictionary within the limit");
    run.sample(json!({"case": "source of 1000 bytes (text, 100 bytes per read), size estimate 1000, dictionary size 64"}));
    run.finish()
}
