//! What a unit test cannot observe: heap use per case, allocation refusal, guard zones around the
//! ring buffer's allocation, panics as values.
use std::alloc::{GlobalAlloc, Layout, System};
use std::cell::Cell;
use std::panic::{catch_unwind, AssertUnwindSafe};

pub const GUARD: usize = 256;
const CANARY: u8 = 0xC5;

thread_local! {
    static LIVE: Cell<isize> = const { Cell::new(0) };
    static PEAK: Cell<isize> = const { Cell::new(0) };
    static LARGEST: Cell<usize> = const { Cell::new(0) };
    static REFUSE_ABOVE: Cell<usize> = const { Cell::new(usize::MAX) };
    static REFUSED: Cell<usize> = const { Cell::new(0) };
    static POISON: Cell<u8> = const { Cell::new(0xA5) };
    static GUARD_ON: Cell<bool> = const { Cell::new(false) };
    static CANARY_BROKEN: Cell<usize> = const { Cell::new(0) };
    // live guarded allocations of this thread: (user ptr, size)
    static GUARDED: Cell<[(usize, usize); 8]> = const { Cell::new([(0, 0); 8]) };
}

pub struct Meter;

fn ring_layout(l: &Layout) -> bool {
    l.align() == 1 && l.size() >= 2 && (l.size() - 1).is_power_of_two()
}

unsafe impl GlobalAlloc for Meter {
    unsafe fn alloc(&self, l: Layout) -> *mut u8 {
        let size = l.size();
        if size > REFUSE_ABOVE.with(|c| c.get()) {
            REFUSED.with(|c| c.set(c.get() + 1));
            LARGEST.with(|c| c.set(c.get().max(size)));
            return std::ptr::null_mut();
        }
        let p = if ring_layout(&l) {
            // ring-buffer shaped request (align 1, 2^k+1 bytes): always framed by guard zones, so that the
            // decision at dealloc time depends on the layout only
            let raw = System.alloc(Layout::from_size_align_unchecked(size + 2 * GUARD, 16));
            if raw.is_null() {
                return raw;
            }
            std::ptr::write_bytes(raw, CANARY, GUARD);
            // poison only where an explorer asked for guard tracking (C04); filling multi-megabyte windows
            // in every other check would dominate their run time
            if GUARD_ON.with(|c| c.get()) {
                std::ptr::write_bytes(raw.add(GUARD), POISON.with(|c| c.get()), size);
            }
            std::ptr::write_bytes(raw.add(GUARD + size), CANARY, GUARD);
            let user = raw.add(GUARD);
            if GUARD_ON.with(|c| c.get()) {
                GUARDED.with(|g| {
                    let mut a = g.get();
                    if let Some(slot) = a.iter_mut().find(|s| s.0 == 0) {
                        *slot = (user as usize, size);
                    }
                    g.set(a);
                });
            }
            user
        } else {
            System.alloc(l)
        };
        if !p.is_null() {
            LIVE.with(|c| {
                let v = c.get() + size as isize;
                c.set(v);
                PEAK.with(|p| {
                    if v > p.get() {
                        p.set(v)
                    }
                });
            });
            LARGEST.with(|c| c.set(c.get().max(size)));
        }
        p
    }
    unsafe fn dealloc(&self, p: *mut u8, l: Layout) {
        let size = l.size();
        LIVE.with(|c| c.set(c.get() - size as isize));
        if ring_layout(&l) {
            let raw = p.sub(GUARD);
            if !canaries_ok(p, size) {
                CANARY_BROKEN.with(|c| c.set(c.get() + 1));
            }
            GUARDED.with(|g| {
                let mut a = g.get();
                for s in a.iter_mut() {
                    if s.0 == p as usize {
                        *s = (0, 0);
                    }
                }
                g.set(a);
            });
            System.dealloc(raw, Layout::from_size_align_unchecked(size + 2 * GUARD, 16));
        } else {
            System.dealloc(p, l)
        }
    }
    unsafe fn realloc(&self, p: *mut u8, l: Layout, new_size: usize) -> *mut u8 {
        let nl = Layout::from_size_align_unchecked(new_size, l.align());
        if ring_layout(&l) || ring_layout(&nl) || new_size > REFUSE_ABOVE.with(|c| c.get()) {
            let np = self.alloc(nl);
            if !np.is_null() {
                std::ptr::copy_nonoverlapping(p, np, l.size().min(new_size));
                self.dealloc(p, l);
            }
            return np;
        }
        let np = System.realloc(p, l, new_size);
        if !np.is_null() {
            LIVE.with(|c| {
                let v = c.get() + new_size as isize - l.size() as isize;
                c.set(v);
                PEAK.with(|p| {
                    if v > p.get() {
                        p.set(v)
                    }
                });
            });
            LARGEST.with(|c| c.set(c.get().max(new_size)));
        }
        np
    }
}

unsafe fn canaries_ok(user: *mut u8, size: usize) -> bool {
    let pre = std::slice::from_raw_parts(user.sub(GUARD), GUARD);
    let post = std::slice::from_raw_parts(user.add(size), GUARD);
    static BLOCK: [u8; GUARD] = [CANARY; GUARD];
    pre == BLOCK && post == BLOCK
}

/// Per-thread measurement window.
pub struct Window {
    live0: isize,
}
pub fn begin() -> Window {
    let live0 = LIVE.with(|c| c.get());
    PEAK.with(|c| c.set(live0));
    LARGEST.with(|c| c.set(0));
    REFUSED.with(|c| c.set(0));
    Window { live0 }
}
impl Window {
    /// peak live bytes above the level at `begin`
    pub fn peak(&self) -> usize {
        (PEAK.with(|c| c.get()) - self.live0).max(0) as usize
    }
    pub fn live(&self) -> isize {
        LIVE.with(|c| c.get()) - self.live0
    }
    pub fn largest(&self) -> usize {
        LARGEST.with(|c| c.get())
    }
    pub fn refused(&self) -> usize {
        REFUSED.with(|c| c.get())
    }
}
pub fn refuse_above(n: usize) {
    REFUSE_ABOVE.with(|c| c.set(n));
}
pub fn set_poison(b: u8) {
    POISON.with(|c| c.set(b));
}
pub fn guard_tracking(on: bool) {
    GUARD_ON.with(|c| c.set(on));
    // damage noticed while an earlier object of this thread was torn down belongs to that object
    CANARY_BROKEN.with(|c| c.set(0));
    if !on {
        GUARDED.with(|g| g.set([(0, 0); 8]));
    }
}
/// true if every live guarded allocation of this thread still has intact guard zones and none was
/// seen broken at deallocation since the last call
pub fn canaries_intact() -> bool {
    let mut ok = CANARY_BROKEN.with(|c| c.replace(0)) == 0;
    GUARDED.with(|g| {
        for (p, s) in g.get() {
            if p != 0 && !unsafe { canaries_ok(p as *mut u8, s) } {
                ok = false;
            }
        }
    });
    ok
}

thread_local! {
    static LAST_PANIC: std::cell::RefCell<String> = const { std::cell::RefCell::new(String::new()) };
}

/// install once: panics are recorded per thread instead of printed
pub fn install_panic_hook() {
    std::panic::set_hook(Box::new(|info| {
        let msg = if let Some(s) = info.payload().downcast_ref::<&str>() {
            s.to_string()
        } else if let Some(s) = info.payload().downcast_ref::<String>() {
            s.clone()
        } else {
            "<non-string panic>".to_string()
        };
        let loc = info.location().map(|l| format!("{}:{}", l.file(), l.line())).unwrap_or_default();
        let msg = crate::ev::truncate(&msg, 400);
        LAST_PANIC.with(|p| *p.borrow_mut() = format!("{msg} @ {loc}"));
        if std::env::var_os("VERIF_SHOW_PANICS").is_some() || std::thread::current().name() == Some("main") {
            eprintln!("panic: {msg} @ {loc}");
        }
    }));
}

/// run `f`, turning a panic into Err(message @ location)
pub fn guarded<T>(f: impl FnOnce() -> T) -> Result<T, String> {
    match catch_unwind(AssertUnwindSafe(f)) {
        Ok(v) => Ok(v),
        Err(_) => Err(LAST_PANIC.with(|p| p.borrow().clone())),
    }
}

// ---------------------------------------------------------------------------------------------- case watchdog
// A case of an in-process enumeration that never returns (the code under test loops for ever) would hang the whole
// check. Every worker publishes "case i started at t" in a slot; a watchdog thread turns a case that has been
// running for more than CASE_LIMIT_S seconds into a verdict and ends the process (the stuck thread cannot be
// stopped). Cases take micro- to milliseconds; the limit is minutes.
use std::sync::atomic::{AtomicU64, Ordering as AO};
const SLOTS: usize = 256;
static NOW_MS: AtomicU64 = AtomicU64::new(1);
static CASE_START: [AtomicU64; SLOTS] = [const { AtomicU64::new(0) }; SLOTS];
static CASE_INDEX: [AtomicU64; SLOTS] = [const { AtomicU64::new(0) }; SLOTS];
static NEXT_SLOT: AtomicU64 = AtomicU64::new(0);
static WATCHDOG: std::sync::Once = std::sync::Once::new();
/// set by Run::new: what to report if a case hangs
pub static HANG_REPORT: std::sync::Mutex<Option<Box<dyn Fn(u64, u64) + Send>>> = std::sync::Mutex::new(None);

pub fn case_limit_s() -> u64 {
    std::env::var("VERIF_CASE_LIMIT_S").ok().and_then(|s| s.parse().ok()).unwrap_or(240)
}

fn start_watchdog() {
    WATCHDOG.call_once(|| {
        let t0 = std::time::Instant::now();
        std::thread::spawn(move || loop {
            std::thread::sleep(std::time::Duration::from_millis(100));
            let now = t0.elapsed().as_millis() as u64 + 1;
            NOW_MS.store(now, AO::Relaxed);
            for s in 0..SLOTS {
                let st = CASE_START[s].load(AO::Relaxed);
                if st != 0 && now > st + case_limit_s() * 1000 {
                    let idx = CASE_INDEX[s].load(AO::Relaxed);
                    if let Some(f) = HANG_REPORT.lock().unwrap_or_else(|e| e.into_inner()).as_ref() {
                        f(idx, (now - st) / 1000);
                    }
                    eprintln!("WATCHDOG: case index {idx} has been running for {} s and nobody is registered to report it", (now - st) / 1000);
                    std::process::exit(2);
                }
            }
        });
    });
}

/// a worker's slot for the duration of a parallel section
struct Slot(usize);
impl Slot {
    fn take() -> Slot {
        start_watchdog();
        Slot((NEXT_SLOT.fetch_add(1, AO::Relaxed) as usize) % SLOTS)
    }
    #[inline]
    fn begin(&self, i: usize) {
        CASE_INDEX[self.0].store(i as u64, AO::Relaxed);
        CASE_START[self.0].store(NOW_MS.load(AO::Relaxed), AO::Relaxed);
    }
    #[inline]
    fn end(&self) {
        CASE_START[self.0].store(0, AO::Relaxed);
    }
}
impl Drop for Slot {
    fn drop(&mut self) {
        self.end();
    }
}

/// Parallel map over 0..n with dynamic chunking; results returned in index order.
pub fn par_map<T: Send, F: Fn(usize) -> T + Sync>(n: usize, threads: usize, f: F) -> Vec<T> {
    use std::sync::atomic::{AtomicUsize, Ordering};
    let next = AtomicUsize::new(0);
    let chunk = (n / (threads * 16)).clamp(1, 4096);
    let mut parts: Vec<Vec<(usize, T)>> = std::thread::scope(|sc| {
        let hs: Vec<_> = (0..threads.max(1))
            .map(|_| {
                sc.spawn(|| {
                    let slot = Slot::take();
                    let mut local = Vec::new();
                    loop {
                        let s = next.fetch_add(chunk, Ordering::Relaxed);
                        if s >= n {
                            break;
                        }
                        for i in s..(s + chunk).min(n) {
                            slot.begin(i);
                            local.push((i, f(i)));
                            slot.end();
                        }
                    }
                    local
                })
            })
            .collect();
        hs.into_iter().map(|h| h.join().expect("worker thread")).collect()
    });
    let mut all: Vec<(usize, T)> = parts.drain(..).flatten().collect();
    all.sort_by_key(|x| x.0);
    all.into_iter().map(|x| x.1).collect()
}

/// Parallel fold: each worker folds a private accumulator over dynamically assigned indices.
pub fn par_fold<A: Send, F: Fn(&mut A, usize) + Sync, N: Fn() -> A + Sync>(n: usize, threads: usize, new: N, f: F) -> Vec<A> {
    use std::sync::atomic::{AtomicUsize, Ordering};
    let next = AtomicUsize::new(0);
    let chunk = (n / (threads * 32)).clamp(1, 1 << 16);
    std::thread::scope(|sc| {
        let hs: Vec<_> = (0..threads.max(1))
            .map(|_| {
                sc.spawn(|| {
                    let slot = Slot::take();
                    let mut acc = new();
                    loop {
                        let s = next.fetch_add(chunk, Ordering::Relaxed);
                        if s >= n {
                            break;
                        }
                        for i in s..(s + chunk).min(n) {
                            // safety net: a panic that escapes the per-call guards is recorded, not fatal
                            slot.begin(i);
                            if let Err(p) = guarded(|| f(&mut acc, i)) {
                                escaped(format!("case index {i}: {p}"));
                            }
                            slot.end();
                        }
                    }
                    acc
                })
            })
            .collect();
        hs.into_iter().map(|h| h.join().expect("worker thread")).collect()
    })
}

pub fn threads() -> usize {
    std::env::var("VERIF_THREADS").ok().and_then(|s| s.parse().ok()).unwrap_or_else(|| std::thread::available_parallelism().map(|n| n.get()).unwrap_or(8))
}

static ESCAPED: std::sync::Mutex<Vec<String>> = std::sync::Mutex::new(Vec::new());
/// record a panic that escaped the per-call guards (classified by its location when the run finishes)
pub fn escaped(msg: String) {
    let mut g = ESCAPED.lock().unwrap_or_else(|e| e.into_inner());
    if g.len() < 50 {
        g.push(msg);
    }
}
pub fn take_escaped() -> Vec<String> {
    std::mem::take(&mut *ESCAPED.lock().unwrap_or_else(|e| e.into_inner()))
}
