//! C04 — the unsafe output window is a byte queue and stays inside its allocation.
//! Two systems explored to closure over the real code: (1) RingBuffer under the operations the decoder
//! performs, key (cap, head, tail); (2) DecodeBuffer (push / repeat / every drain path / reset).
use crate::ev::{Run, Tier, Violation};
use crate::meter;
use crate::xplore::{self, Caps, System};
use ruzstd::decoding::verif::{DecodeBuffer, RingBuffer};
use serde_json::{json, Value};
use std::collections::VecDeque;
use std::io::Read;

// ---------------------------------------------------------------- system 1: RingBuffer

#[derive(Clone, Debug, PartialEq)]
pub enum ROp {
    Extend(usize),
    Fill(usize),
    /// extend_from_reader(n) from a reader that delivers `good` bytes and then: 0 = nothing special (good == n),
    /// 1 = EOF, 2 = an I/O error
    Reader(usize, usize, u8),
    /// reserve(len) then extend_from_within_unchecked(start, len) — what DecodeBuffer::repeat does
    Within(usize, usize),
    /// the same through extend_from_within_unchecked_branchless (same contract; not called by the decoder today)
    WithinBranchless(usize, usize),
    Drop(usize),
    Reserve(usize),
    Clear,
    /// push_back(byte) (not called by the decoder today)
    PushBack,
}

pub struct RingSys {
    pub max_cap: usize,
    /// if set, Within is restricted to lengths around the wide-copy chunk sizes (Miri / boundary tier)
    pub boundary_only: bool,
    /// explore the branchless copy for every (start, len), not only the boundary ones
    pub all_branchless: bool,
}

pub struct RLive {
    a: RingBuffer,
    b: RingBuffer,
    model: VecDeque<u8>,
    ctr: u32,
}

struct ScriptReader<'a> {
    data: &'a [u8],
    then: u8,
}
impl Read for ScriptReader<'_> {
    fn read(&mut self, buf: &mut [u8]) -> std::io::Result<usize> {
        if self.data.is_empty() {
            return match self.then {
                2 => Err(std::io::Error::new(std::io::ErrorKind::Other, "scripted failure")),
                _ => Ok(0),
            };
        }
        // deliver at most 3 bytes per call so that read_exact loops
        let n = buf.len().min(self.data.len()).min(3);
        buf[..n].copy_from_slice(&self.data[..n]);
        self.data = &self.data[n..];
        Ok(n)
    }
}

fn fresh_bytes(ctr: &mut u32, n: usize) -> Vec<u8> {
    (0..n)
        .map(|_| {
            *ctr += 1;
            (*ctr % 251) as u8 + 1
        })
        .collect()
}

fn apply_ring(r: &mut RingBuffer, op: &ROp, data: &[u8]) -> bool {
    match op {
        ROp::Extend(_) => {
            r.extend(data);
            true
        }
        ROp::Fill(n) => {
            r.extend_and_fill(data[0], *n);
            true
        }
        ROp::Reader(n, good, then) => r.extend_from_reader(ScriptReader { data: &data[..*good], then: *then }, *n).is_ok(),
        ROp::Within(start, len) => {
            r.reserve(*len);
            // SAFETY (as in DecodeBuffer::repeat): start + len <= len() is guaranteed by the menu, space reserved
            unsafe { r.extend_from_within_unchecked(*start, *len) };
            true
        }
        ROp::WithinBranchless(start, len) => {
            r.reserve(*len);
            // SAFETY: same contract as above
            unsafe { r.extend_from_within_unchecked_branchless(*start, *len) };
            true
        }
        ROp::PushBack => {
            r.push_back(data[0]);
            true
        }
        ROp::Drop(n) => {
            r.drop_first_n(*n);
            true
        }
        ROp::Reserve(n) => {
            r.reserve(*n);
            true
        }
        ROp::Clear => {
            r.clear();
            true
        }
    }
}

fn ring_contents(r: &RingBuffer) -> Vec<u8> {
    let (s1, s2) = r.as_slices();
    let mut v = s1.to_vec();
    v.extend_from_slice(s2);
    v
}

fn check_ring(name: &str, r: &RingBuffer, model: &VecDeque<u8>) -> Result<(), String> {
    let (cap, head, tail) = r.verif_state();
    if cap > 0 && (head >= cap || tail >= cap) {
        return Err(format!("{name}: invariant 3/4 broken: cap={cap} head={head} tail={tail}"));
    }
    if cap == 0 && (head != 0 || tail != 0) {
        return Err(format!("{name}: cap=0 but head={head} tail={tail}"));
    }
    let c = ring_contents(r);
    let m: Vec<u8> = model.iter().copied().collect();
    if c != m {
        let first = c.iter().zip(m.iter()).position(|(x, y)| x != y).unwrap_or(c.len().min(m.len()));
        return Err(format!("{name}: contents differ from the byte-queue model at index {first} (len ring {} model {}; cap={cap} head={head} tail={tail}): ring {:?} model {:?}", c.len(), m.len(), &c[first..(first + 8).min(c.len())], &m[first..(first + 8).min(m.len())]));
    }
    if r.len() != m.len() {
        return Err(format!("{name}: len() = {} but queue holds {}", r.len(), m.len()));
    }
    if cap > 0 && r.len() + r.free() + 1 != cap {
        return Err(format!("{name}: len {} + free {} + 1 != cap {cap}", r.len(), r.free()));
    }
    // the read-only accessor (not used by the decoder today, but part of the type): first, last, one past the
    // end, far past the end
    if cap > 0 {
        for idx in [0usize, m.len().saturating_sub(1), m.len(), m.len() + 1, cap] {
            let want = m.get(idx).copied();
            let got = r.get(idx);
            if got != want {
                return Err(format!("{name}: get({idx}) = {got:?}, the queue holds {want:?} there (len {})", m.len()));
            }
        }
    }
    Ok(())
}

impl System for RingSys {
    type Op = ROp;
    type Key = (usize, usize, usize);
    type Live = RLive;
    fn fresh(&self) -> RLive {
        meter::guard_tracking(true);
        RLive { a: RingBuffer::new(), b: RingBuffer::new(), model: VecDeque::new(), ctr: 0 }
    }
    fn key(&self, l: &RLive) -> Self::Key {
        l.a.verif_state()
    }
    fn expand(&self, l: &RLive) -> bool {
        l.a.verif_state().0 <= self.max_cap
    }
    fn enabled(&self, l: &RLive) -> Vec<ROp> {
        let (cap, _, _) = l.a.verif_state();
        let len = l.a.len();
        let free = l.a.free();
        let mut ops = vec![];
        // operand sizes: everything that fits, the first size that forces growth, one that forces a double growth
        let mut sizes: Vec<usize> = (0..=free).collect();
        sizes.push(free + 1);
        if cap > 1 {
            sizes.push(free + cap - 1);
        } else {
            // from the empty/initial buffer every size is a growth: reach every capacity class directly
            let mut c = 2;
            while c <= self.max_cap {
                sizes.push(free + c - 1);
                c = (c - 1) * 2 + 1;
            }
        }
        sizes.sort();
        sizes.dedup();
        let interesting = |n: usize| !self.boundary_only || n <= 2 || n + 2 >= free || [15, 16, 17, 31, 32, 33, 47, 48, 49].contains(&n);
        for &n in &sizes {
            if interesting(n) {
                ops.push(ROp::Extend(n));
            }
        }
        for &n in &sizes {
            if n > 0 && interesting(n) {
                ops.push(ROp::Fill(n));
            }
        }
        for &n in &sizes {
            if n > 0 && interesting(n) {
                ops.push(ROp::Reader(n, n, 0));
                ops.push(ROp::Reader(n, 0, 1));
                ops.push(ROp::Reader(n, n - 1, 1));
                ops.push(ROp::Reader(n, n / 2, 2));
            }
        }
        // copy-from-within: every legal (start, len); the decoder only calls it with len >= 1 on a non-empty buffer
        for clen in 1..=len {
            if self.boundary_only && !(clen <= 2 || [15, 16, 17, 31, 32, 33, 47, 48, 49].contains(&clen) || clen == len) {
                continue;
            }
            for start in 0..=(len - clen) {
                ops.push(ROp::Within(start, clen));
                // the branchless twin: every (start, len) in the thorough tier, the boundary ones in quick
                if self.all_branchless || start == 0 || start == len - clen || clen <= 2 || clen == len || [15, 16, 17, 31, 32, 33].contains(&clen) {
                    ops.push(ROp::WithinBranchless(start, clen));
                }
            }
        }
        for n in 1..=len {
            if !self.boundary_only || n <= 2 || n + 2 >= len || n % 16 <= 1 {
                ops.push(ROp::Drop(n));
            }
        }
        for n in [0, free, free + 1, free + cap.max(2) - 1] {
            ops.push(ROp::Reserve(n));
        }
        ops.push(ROp::Clear);
        ops.push(ROp::PushBack);
        ops
    }
    fn step(&self, l: &mut RLive, op: &ROp) -> Result<(), String> {
        let before = l.a.verif_state();
        let n = match op {
            ROp::Extend(n) | ROp::Reader(n, _, _) => *n,
            ROp::Fill(_) | ROp::PushBack => 1,
            _ => 0,
        };
        let data = fresh_bytes(&mut l.ctr, n);
        meter::set_poison(0xA5);
        let ok_a = apply_ring(&mut l.a, op, &data);
        meter::set_poison(0x5A);
        let ok_b = apply_ring(&mut l.b, op, &data);
        if ok_a != ok_b {
            return Err(format!("result differs between two runs of the same operation: {ok_a} vs {ok_b}"));
        }
        // byte-queue model
        match op {
            ROp::Extend(_) => l.model.extend(data.iter()),
            ROp::Fill(n) => l.model.extend(std::iter::repeat(data[0]).take(*n)),
            ROp::Reader(n, good, _) => {
                if good == n {
                    if !ok_a {
                        return Err("extend_from_reader failed although the reader delivered every byte".into());
                    }
                    l.model.extend(data.iter());
                } else if ok_a {
                    return Err("extend_from_reader succeeded although the reader ended early".into());
                }
            }
            ROp::Within(start, len) | ROp::WithinBranchless(start, len) => {
                for i in 0..*len {
                    let b = l.model[start + i];
                    l.model.push_back(b);
                }
            }
            ROp::Drop(n) => {
                l.model.drain(..*n);
            }
            ROp::Reserve(_) => {}
            ROp::PushBack => l.model.push_back(data[0]),
            ROp::Clear => l.model.clear(),
        }
        if !meter::canaries_intact() {
            return Err(format!("write outside the allocation (guard zone damaged) from state {:?}", before));
        }
        check_ring("ring(poison A5)", &l.a, &l.model)?;
        check_ring("ring(poison 5A)", &l.b, &l.model)?;
        if l.a.verif_state() != l.b.verif_state() {
            return Err(format!("geometry depends on uninitialised bytes: {:?} vs {:?}", l.a.verif_state(), l.b.verif_state()));
        }
        if let ROp::Reserve(n) | ROp::Within(_, n) | ROp::WithinBranchless(_, n) = op {
            // reserve must leave room for n (Within: before the copy consumed it)
            let room = l.a.free() + if matches!(op, ROp::Within(..) | ROp::WithinBranchless(..)) { *n } else { 0 };
            if room < *n {
                return Err(format!("reserve({n}) left only {} free", l.a.free()));
            }
        }
        Ok(())
    }
}

pub fn rop_json(op: &ROp) -> Value {
    match op {
        ROp::Extend(n) => json!(["extend", n]),
        ROp::Fill(n) => json!(["fill", n]),
        ROp::Reader(n, g, t) => json!(["reader", n, g, t]),
        ROp::Within(s, l) => json!(["within", s, l]),
        ROp::WithinBranchless(s, l) => json!(["within_branchless", s, l]),
        ROp::Drop(n) => json!(["drop", n]),
        ROp::Reserve(n) => json!(["reserve", n]),
        ROp::Clear => json!(["clear"]),
        ROp::PushBack => json!(["push_back"]),
    }
}
pub fn rop_from(v: &Value) -> ROp {
    let a = v.as_array().expect("op array");
    let u = |i: usize| a[i].as_u64().unwrap() as usize;
    match a[0].as_str().unwrap() {
        "extend" => ROp::Extend(u(1)),
        "fill" => ROp::Fill(u(1)),
        "reader" => ROp::Reader(u(1), u(2), u(3) as u8),
        "within" => ROp::Within(u(1), u(2)),
        "within_branchless" => ROp::WithinBranchless(u(1), u(2)),
        "drop" => ROp::Drop(u(1)),
        "reserve" => ROp::Reserve(u(1)),
        "clear" => ROp::Clear,
        "push_back" => ROp::PushBack,
        x => panic!("unknown op {x}"),
    }
}

// ---------------------------------------------------------------- system 2: DecodeBuffer

#[derive(Clone, Debug, PartialEq)]
pub enum DOp {
    Push(usize),
    Fill(usize),
    FromReader(usize),
    Repeat(usize, usize),
    DrainToWindow,
    DrainAll,
    Read(usize),
    ReadAll(usize),
    /// drain_to_window_size_writer / drain_to_writer with a sink that takes `per_call` bytes per write and
    /// returns Ok(0) (kind 0) or WouldBlock (kind 1) after `budget` bytes
    WindowWriter(usize, usize, u8),
    AllWriter(usize, usize, u8),
    Reset,
}

pub struct BufSys {
    pub window: usize,
    pub dict: Vec<u8>,
    pub max_len: usize,
    /// reduced operand menu (Miri tier)
    pub reduced: bool,
}

pub struct DLive {
    buf: DecodeBuffer,
    /// everything produced since reset (without the dictionary)
    produced: Vec<u8>,
    /// how many of `produced` have left the buffer
    drained: usize,
    ctr: u32,
}

struct Sink {
    got: Vec<u8>,
    per_call: usize,
    budget: usize,
    kind: u8,
}
impl std::io::Write for Sink {
    fn write(&mut self, b: &[u8]) -> std::io::Result<usize> {
        if self.budget == 0 {
            return if self.kind == 1 { Err(std::io::ErrorKind::WouldBlock.into()) } else { Ok(0) };
        }
        let n = b.len().min(self.per_call).min(self.budget);
        self.budget -= n;
        self.got.extend_from_slice(&b[..n]);
        Ok(n)
    }
    fn flush(&mut self) -> std::io::Result<()> {
        Ok(())
    }
}

impl BufSys {
    fn held(l: &DLive) -> usize {
        l.produced.len() - l.drained
    }
    fn take(&self, l: &mut DLive, got: &[u8], what: &str) -> Result<(), String> {
        let exp = &l.produced[l.drained..];
        if got.len() > exp.len() || &exp[..got.len()] != got {
            return Err(format!("{what} handed out bytes that are not the next bytes of the stream (got {} bytes, {} were held)", got.len(), exp.len()));
        }
        l.drained += got.len();
        Ok(())
    }
    fn check(&self, l: &DLive) -> Result<(), String> {
        if l.buf.len() != Self::held(l) {
            return Err(format!("buffer holds {} bytes, model {}", l.buf.len(), Self::held(l)));
        }
        let c = l.buf.verif_contents();
        if c != l.produced[l.drained..] {
            let m = &l.produced[l.drained..];
            let first = c.iter().zip(m.iter()).position(|(x, y)| x != y).unwrap_or(0);
            return Err(format!("buffer contents differ from the model at index {first}: {:?} vs {:?}", &c[first..(first + 8).min(c.len())], &m[first..(first + 8).min(m.len())]));
        }
        let (cap, head, tail) = l.buf.verif_ring_state();
        if cap > 0 && (head >= cap || tail >= cap) {
            return Err(format!("ring invariant broken cap={cap} head={head} tail={tail}"));
        }
        if !meter::canaries_intact() {
            return Err("write outside the ring allocation (guard zone damaged)".into());
        }
        Ok(())
    }
}

impl System for BufSys {
    type Op = DOp;
    type Key = ((usize, usize, usize), usize, bool, u64);
    type Live = DLive;
    fn fresh(&self) -> DLive {
        meter::guard_tracking(true);
        meter::set_poison(0xA5);
        let mut buf = DecodeBuffer::new(self.window);
        buf.dict_content.extend_from_slice(&self.dict);
        DLive { buf, produced: vec![], drained: 0, ctr: 0 }
    }
    fn key(&self, l: &DLive) -> Self::Key {
        (l.buf.verif_ring_state(), l.produced.len().min(self.window + 1), l.drained > 0, l.buf.verif_total_output_counter().min(self.window as u64 + 1))
    }
    fn expand(&self, l: &DLive) -> bool {
        Self::held(l) <= self.max_len
    }
    fn enabled(&self, l: &DLive) -> Vec<DOp> {
        let held = Self::held(l);
        let mut ops = vec![];
        for n in if self.reduced { vec![0usize, 1, 3] } else { vec![0usize, 1, 2, 3, 5, 16, 17, 33] } {
            ops.push(DOp::Push(n));
        }
        for n in if self.reduced { vec![2usize] } else { vec![1usize, 17] } {
            ops.push(DOp::Fill(n));
            ops.push(DOp::FromReader(n));
        }
        // dictionary reach is legal while nothing has left the buffer and the output is within the window
        let dict_reach = if l.drained == 0 && l.produced.len() <= self.window { self.dict.len() } else { 0 };
        // one past the legal reach is probed only where the model knows the answer (dictionary still legally
        // reachable); elsewhere the implementation's lenient output counter may accept more (not C04's concern)
        let legal_dict_state = l.drained == 0 && l.produced.len() <= self.window;
        let max_off = held + dict_reach + if legal_dict_state { 1 } else { 0 };
        for off in 1..=max_off {
            let mut lens = if self.reduced { vec![1usize, 17, off + 1] } else { vec![1usize, 2, 3, 15, 16, 17, 31, 32, 33, off, off + 1, 2 * off + 1] };
            if off > 1 {
                lens.push(off - 1);
            }
            lens.sort();
            lens.dedup();
            for ml in lens {
                ops.push(DOp::Repeat(off, ml));
            }
        }
        ops.push(DOp::DrainToWindow);
        ops.push(DOp::DrainAll);
        for n in if self.reduced { vec![3usize] } else { vec![0usize, 1, 3, 100] } {
            ops.push(DOp::Read(n));
            ops.push(DOp::ReadAll(n));
        }
        let sinks: Vec<(usize, usize, u8)> = if self.reduced { vec![(2, 3, 0), (3, 4, 1)] } else { vec![(usize::MAX, usize::MAX, 0u8), (1, usize::MAX, 0), (usize::MAX, 0, 0), (2, 3, 0), (usize::MAX, 0, 1), (3, 4, 1)] };
        for (per, budget, kind) in sinks {
            ops.push(DOp::WindowWriter(per, budget, kind));
            ops.push(DOp::AllWriter(per, budget, kind));
        }
        ops.push(DOp::Reset);
        ops
    }
    fn step(&self, l: &mut DLive, op: &DOp) -> Result<(), String> {
        let held = Self::held(l);
        match op {
            DOp::Push(n) => {
                let d = fresh_bytes(&mut l.ctr, *n);
                l.buf.push(&d);
                l.produced.extend(d);
            }
            DOp::Fill(n) => {
                let d = fresh_bytes(&mut l.ctr, 1)[0];
                l.buf.extend_and_fill(d, *n);
                l.produced.extend(std::iter::repeat(d).take(*n));
            }
            DOp::FromReader(n) => {
                let d = fresh_bytes(&mut l.ctr, *n);
                l.buf.extend_from_reader(d.as_slice(), *n).map_err(|e| format!("extend_from_reader: {e}"))?;
                l.produced.extend(d);
            }
            DOp::Repeat(off, ml) => {
                let dict_reach = if l.drained == 0 && l.produced.len() <= self.window { self.dict.len() } else { 0 };
                let r = l.buf.repeat(*off, *ml);
                if *off <= held + dict_reach {
                    r.map_err(|e| format!("repeat({off},{ml}) refused a legal offset: {e:?}"))?;
                    // model: history = dict ++ produced
                    for _ in 0..*ml {
                        let pos = l.produced.len() as isize - *off as isize;
                        let b = if pos >= 0 { l.produced[pos as usize] } else { self.dict[(self.dict.len() as isize + pos) as usize] };
                        l.produced.push(b);
                    }
                } else if r.is_ok() {
                    return Err(format!("repeat({off},{ml}) accepted an offset beyond dictionary ({}) + output ({held})", self.dict.len()));
                }
            }
            DOp::DrainToWindow => {
                let got = l.buf.drain_to_window_size();
                let exp = held.saturating_sub(self.window);
                let g = got.unwrap_or_default();
                if g.len() != exp {
                    return Err(format!("drain_to_window_size returned {} bytes, expected {exp}", g.len()));
                }
                self.take(l, &g, "drain_to_window_size")?;
            }
            DOp::DrainAll => {
                let g = l.buf.drain();
                if g.len() != held {
                    return Err(format!("drain returned {} of {held}", g.len()));
                }
                self.take(l, &g, "drain")?;
            }
            DOp::Read(n) => {
                let mut t = vec![0u8; *n];
                let k = l.buf.read(&mut t).map_err(|e| e.to_string())?;
                let exp = held.saturating_sub(self.window).min(*n);
                if k != exp {
                    return Err(format!("read({n}) returned {k}, expected {exp}"));
                }
                self.take(l, &t[..k], "read")?;
            }
            DOp::ReadAll(n) => {
                let mut t = vec![0u8; *n];
                let k = l.buf.read_all(&mut t).map_err(|e| e.to_string())?;
                if k != held.min(*n) {
                    return Err(format!("read_all({n}) returned {k}, expected {}", held.min(*n)));
                }
                self.take(l, &t[..k], "read_all")?;
            }
            DOp::WindowWriter(per, budget, kind) | DOp::AllWriter(per, budget, kind) => {
                let mut s = Sink { got: vec![], per_call: *per, budget: *budget, kind: *kind };
                let all = matches!(op, DOp::AllWriter(..));
                let r = if all { l.buf.drain_to_writer(&mut s) } else { l.buf.drain_to_window_size_writer(&mut s) };
                let avail = if all { held } else { held.saturating_sub(self.window) };
                if let Ok(k) = r {
                    if k != s.got.len() {
                        return Err(format!("writer drain reported {k} bytes, sink accepted {}", s.got.len()));
                    }
                }
                if s.got.len() > avail {
                    return Err(format!("writer drain delivered {} bytes, only {avail} were drainable", s.got.len()));
                }
                if *budget >= avail && *per > 0 && s.got.len() != avail {
                    return Err(format!("writer drain delivered {} of {avail} although the sink had room", s.got.len()));
                }
                let got = std::mem::take(&mut s.got);
                self.take(l, &got, "writer drain")?;
            }
            DOp::Reset => {
                l.buf.reset(self.window);
                l.buf.dict_content.extend_from_slice(&self.dict);
                l.produced.clear();
                l.drained = 0;
            }
        }
        self.check(l)
    }
    fn on_state(&self, l: &DLive) -> Result<xplore::StateInfo, String> {
        self.check(l).map(|_| xplore::StateInfo { terminal: false })
    }
}

pub fn dop_json(op: &DOp) -> Value {
    let big = |n: &usize| if *n == usize::MAX { json!("max") } else { json!(n) };
    match op {
        DOp::Push(n) => json!(["push", n]),
        DOp::Fill(n) => json!(["fill", n]),
        DOp::FromReader(n) => json!(["from_reader", n]),
        DOp::Repeat(o, m) => json!(["repeat", o, m]),
        DOp::DrainToWindow => json!(["drain_to_window"]),
        DOp::DrainAll => json!(["drain_all"]),
        DOp::Read(n) => json!(["read", n]),
        DOp::ReadAll(n) => json!(["read_all", n]),
        DOp::WindowWriter(p, b, k) => json!(["window_writer", big(p), big(b), k]),
        DOp::AllWriter(p, b, k) => json!(["all_writer", big(p), big(b), k]),
        DOp::Reset => json!(["reset"]),
    }
}
pub fn dop_from(v: &Value) -> DOp {
    let a = v.as_array().expect("op array");
    let u = |i: usize| if a[i].as_str() == Some("max") { usize::MAX } else { a[i].as_u64().unwrap() as usize };
    match a[0].as_str().unwrap() {
        "push" => DOp::Push(u(1)),
        "fill" => DOp::Fill(u(1)),
        "from_reader" => DOp::FromReader(u(1)),
        "repeat" => DOp::Repeat(u(1), u(2)),
        "drain_to_window" => DOp::DrainToWindow,
        "drain_all" => DOp::DrainAll,
        "read" => DOp::Read(u(1)),
        "read_all" => DOp::ReadAll(u(1)),
        "window_writer" => DOp::WindowWriter(u(1), u(2), u(3) as u8),
        "all_writer" => DOp::AllWriter(u(1), u(2), u(3) as u8),
        "reset" => DOp::Reset,
        x => panic!("unknown op {x}"),
    }
}

// ---------------------------------------------------------------- driver

fn report<S: System>(run: &mut Run, sys: &S, sysname: &str, params: Value, found: Vec<xplore::Found<S::Op>>, enc: impl Fn(&S::Op) -> Value) {
    for f in found {
        // reproduce twice without the explorer before reporting
        let r1 = xplore::replay(sys, &f.ops).err();
        let r2 = xplore::replay(sys, &f.ops).err();
        if r1.is_none() || r1 != r2 {
            run.machinery_error(format!("violation did not reproduce deterministically: {:?} first {:?} second {:?}", f.msg, r1, r2));
            continue;
        }
        let last = f.ops.last().map(|o| format!("{:?}", o)).unwrap_or_default();
        run.violation(Violation {
            identity: format!("{sysname}:{}:{}", last.split('(').next().unwrap_or(""), crate::ev::truncate(&f.msg, 60)),
            what: format!("{sysname} after {:?}: {}", f.ops, f.msg),
            replay: json!({"system": sysname, "params": params, "ops": f.ops.iter().map(&enc).collect::<Vec<_>>() }),
        });
    }
}

fn rop_job(op: &ROp) -> String {
    match op {
        ROp::Extend(n) => format!("e{n}"),
        ROp::Fill(n) => format!("f{n}"),
        ROp::Reader(n, g, t) => format!("r{n},{g},{t}"),
        ROp::Within(s, l) => format!("w{s},{l}"),
        ROp::WithinBranchless(s, l) => format!("b{s},{l}"),
        ROp::Drop(n) => format!("d{n}"),
        ROp::Reserve(n) => format!("v{n}"),
        ROp::Clear => "c".to_string(),
        ROp::PushBack => "p".to_string(),
    }
}

/// every transition of the ring system up to `max_cap` as one line "op;op;…;op" (history + operation), for the
/// Miri tier (`/verif/c04miri`)
pub fn dump_jobs(path: &str, max_cap: usize, boundary_only: bool) -> i32 {
    use std::io::Write;
    let sys = RingSys { max_cap, boundary_only, all_branchless: false };
    let mut seen: std::collections::HashMap<(usize, usize, usize), Vec<ROp>> = Default::default();
    let mut queue: VecDeque<Vec<ROp>> = VecDeque::new();
    seen.insert((0, 0, 0), vec![]);
    queue.push_back(vec![]);
    let mut out = std::io::BufWriter::new(std::fs::File::create(path).expect("jobs file"));
    let mut n = 0u64;
    while let Some(h) = queue.pop_front() {
        let base = xplore::replay(&sys, &h).ok().expect("history replays");
        if !sys.expand(&base) {
            continue;
        }
        for op in sys.enabled(&base) {
            // the interpreter runs a debug build: the branchless twin (dead code) carries a debug assertion that is
            // one too strict (`>` where the one-past-the-end pointer may equal the end of the allocation) and
            // panics there although the copy is in bounds - the native exploration covers it, the interpreter
            // replays the operations the decoder performs
            if matches!(op, ROp::WithinBranchless(..)) {
                continue;
            }
            let mut l = xplore::replay(&sys, &h).ok().expect("history replays");
            if sys.step(&mut l, &op).is_err() {
                continue; // native violations are reported by the native tier
            }
            let mut line: Vec<String> = h.iter().map(rop_job).collect();
            line.push(rop_job(&op));
            writeln!(out, "{}", line.join(";")).unwrap();
            n += 1;
            let k = sys.key(&l);
            if !seen.contains_key(&k) {
                let mut h2 = h.clone();
                h2.push(op);
                seen.insert(k, h2.clone());
                queue.push_back(h2);
            }
        }
    }
    println!("dumped {n} jobs over {} states (cap <= {max_cap}, boundary_only = {boundary_only}) to {path}", seen.len());
    // the DecodeBuffer system (the two unsafe call sites live in decode_buffer.rs): reduced menu, small bound
    let mut nb = 0u64;
    for (window, dict) in [(4usize, vec![201u8, 202, 203, 204, 205])] {
        let bsys = BufSys { window, dict: dict.clone(), max_len: 5, reduced: true };
        let mut seen: std::collections::HashSet<<BufSys as System>::Key> = Default::default();
        let mut queue: VecDeque<Vec<DOp>> = VecDeque::new();
        let root = bsys.fresh();
        seen.insert(bsys.key(&root));
        drop(root);
        queue.push_back(vec![]);
        while let Some(h) = queue.pop_front() {
            let base = xplore::replay(&bsys, &h).ok().expect("history replays");
            if !bsys.expand(&base) {
                continue;
            }
            for op in bsys.enabled(&base) {
                let mut l = xplore::replay(&bsys, &h).ok().expect("history replays");
                if bsys.step(&mut l, &op).is_err() {
                    continue;
                }
                let mut line: Vec<String> = h.iter().map(dop_job).collect();
                line.push(dop_job(&op));
                writeln!(out, "B{window},{}|{}", dict.len(), line.join(";")).unwrap();
                nb += 1;
                let k = bsys.key(&l);
                if seen.insert(k) {
                    let mut h2 = h.clone();
                    h2.push(op);
                    queue.push_back(h2);
                }
            }
        }
    }
    println!("dumped {nb} DecodeBuffer jobs");
    0
}

fn dop_job(op: &DOp) -> String {
    let big = |n: &usize| if *n == usize::MAX { 999_999 } else { *n };
    match op {
        DOp::Push(n) => format!("p{n}"),
        DOp::Fill(n) => format!("l{n}"),
        DOp::FromReader(n) => format!("q{n}"),
        DOp::Repeat(o, m) => format!("t{o},{m}"),
        DOp::DrainToWindow => "a".into(),
        DOp::DrainAll => "x".into(),
        DOp::Read(n) => format!("R{n}"),
        DOp::ReadAll(n) => format!("A{n}"),
        DOp::WindowWriter(p, b, k) => format!("W{},{},{k}", big(p), big(b)),
        DOp::AllWriter(p, b, k) => format!("V{},{},{k}", big(p), big(b)),
        DOp::Reset => "z".into(),
    }
}

pub fn main(tier: Tier, replay: Option<Value>) -> i32 {
    if let Some(r) = replay {
        // a process death is replayed by running the exploration again
        if !r["replay"]["process_death"].is_array() {
            return do_replay(&r["replay"]);
        }
    }
    if let Ok(spec) = std::env::var("C04_DUMP_JOBS") {
        // "<path>:<max_cap>:<boundary 0|1>"
        let f: Vec<&str> = spec.split(':').collect();
        return dump_jobs(f[0], f[1].parse().unwrap(), f[2] == "1");
    }
    // The subject is unsafe code: an invalid free or a wild write typically ends the process instead of failing an
    // oracle. So the exploration runs in a child process; a child killed by SIGSEGV / SIGABRT / SIGBUS / SIGILL /
    // SIGFPE twice in a row is a verdict about the code (the same engine passes on the unchanged tree), any other
    // abnormal end stays a machinery error.
    if std::env::var("C04_CHILD").is_err() && !cfg!(miri) {
        use std::os::unix::process::ExitStatusExt;
        let exe = std::env::current_exe().expect("current exe");
        let mut signals = vec![];
        for _attempt in 0..2 {
            let st = std::process::Command::new(&exe).arg("C04").arg("--tier").arg(tier.name()).env("C04_CHILD", "1").status().expect("spawn C04 child");
            match (st.code(), st.signal()) {
                (Some(c), _) => return c,
                (None, Some(sig)) if [4, 6, 7, 8, 11].contains(&sig) => signals.push(sig),
                (None, sig) => {
                    let mut run = Run::new("C04", "model_checking", tier);
                    run.machinery_error(format!("the exploration process was killed by signal {sig:?} (not a memory fault: out of memory or an outside kill)"));
                    return run.finish();
                }
            }
        }
        let mut run = Run::new("C04", "model_checking", tier);
        let name = |s: i32| match s {
            4 => "SIGILL",
            6 => "SIGABRT",
            7 => "SIGBUS",
            8 => "SIGFPE",
            _ => "SIGSEGV",
        };
        run.violation(Violation { identity: format!("process_death:{}", name(signals[0])), what: format!("the process exploring the ring buffer / decode buffer was killed by {} in two consecutive runs ({:?}): the unsafe code corrupted memory, freed an invalid pointer or accessed unmapped memory (the progress lines above show how far the search had come)", name(signals[0]), signals), replay: json!({"process_death": signals}) });
        run.set("exhaustive", false);
        return run.finish();
    }
    let mut run = Run::new("C04", "model_checking", tier);
    // results of the Miri tier, produced by ./check before this engine runs (thorough tier)
    if let Ok(p) = std::env::var("C04_MIRI_RESULT") {
        match std::fs::read_to_string(&p).ok().and_then(|s| serde_json::from_str::<Value>(&s).ok()) {
            Some(v) => {
                run.set("miri_jobs", v["jobs"].as_u64().unwrap_or(0));
                run.set("miri_steps", v["steps"].as_u64().unwrap_or(0));
                run.set("miri_max_cap", v["max_cap"].as_u64().unwrap_or(0));
                run.set("miri_shards_ok", v["shards_ok"].as_u64().unwrap_or(0));
                if let Some(errs) = v["errors"].as_array() {
                    for e in errs {
                        let text = e.as_str().unwrap_or("");
                        let ub = text.contains("Undefined Behavior") || text.contains("error: unsupported operation") || text.contains("memory leaked");
                        let panic_line = text.lines().find(|l| l.contains("panicked at")).map(|l| l.trim().to_string());
                        let kind = text.lines().find(|l| l.contains("error:")).map(|l| l.trim().to_string()).or(panic_line.clone()).unwrap_or("interpreter run failed".into());
                        let what = if ub { "Miri reports undefined behaviour" } else if panic_line.is_some() { "a panic (the interpreter runs a debug build: assertion, overflow or model mismatch)" } else { "the interpreter run failed" };
                        run.violation(Violation { identity: format!("miri:{}", crate::ev::truncate(&kind, 70)), what: format!("{what} while replaying ring-buffer / decode-buffer histories: {}", crate::ev::truncate(text, 900)), replay: json!({"miri": true, "output": crate::ev::truncate(text, 3000)}) });
                    }
                }
                if v["machinery_error"].is_string() {
                    run.machinery_error(format!("Miri tier: {}", v["machinery_error"].as_str().unwrap()));
                }
            }
            None => run.machinery_error(format!("Miri result file {p} is unreadable")),
        }
    }
    let miri = cfg!(miri);
    let max_cap = std::env::var("C04_MAX_CAP").ok().and_then(|s| s.parse().ok()).unwrap_or(tier.pick(129, 257));
    let caps = Caps { max_wall_s: tier.pick(120.0, 3000.0), ..Caps::default() };
    let mut all_exhausted = true;
    let mut states = 0u64;
    let mut transitions = 0u64;

    // system 1
    let sys = RingSys { max_cap, boundary_only: miri, all_branchless: tier == Tier::Thorough };
    let (st, found) = xplore::bfs(&sys, &caps);
    println!("C04 ring: cap<={max_cap} states={} transitions={} depth={} exhausted={} {:.1}s {:?}", st.states, st.transitions, st.max_depth, st.exhausted, st.wall_s, st.cap_hit);
    if let Some(n) = &st.nondeterminism {
        run.machinery_error(format!("ring system: {n}"));
    }
    run.set("ring_states", st.states);
    run.set("ring_transitions", st.transitions);
    run.set("ring_max_cap", max_cap as u64);
    run.set("ring_depth", st.max_depth as u64);
    run.set("ring_exhausted_to_cap_bound", st.exhausted);
    if let Some(c) = &st.cap_hit {
        run.set("ring_cap_hit", c.clone());
    }
    all_exhausted &= st.exhausted;
    states += st.states;
    transitions += st.transitions;
    if let Some(f) = found.first() {
        run.sample(json!({"system": "ring", "violating_ops": f.ops.iter().map(rop_json).collect::<Vec<_>>()}));
    }
    report(&mut run, &sys, "ring", json!({"max_cap": max_cap}), found, rop_json);
    run.sample(json!({"system": "ring", "ops": [rop_json(&ROp::Extend(9)), rop_json(&ROp::Drop(7)), rop_json(&ROp::Extend(5)), rop_json(&ROp::Within(1, 3))], "note": "extend 9 bytes, drop 7, extend 5 (wraps), copy 3 bytes from index 1 to the tail; every such history is compared with a VecDeque"}));

    // system 2
    let windows: Vec<usize> = tier.pick(vec![0, 4], vec![0, 1, 4, 16, 33]);
    let dicts: Vec<Vec<u8>> = vec![vec![], vec![201, 202, 203, 204, 205]];
    let max_len = tier.pick(24, 70);
    let mut bstates = 0u64;
    let mut btrans = 0u64;
    for w in &windows {
        for d in &dicts {
            let sys = BufSys { window: *w, dict: d.clone(), max_len, reduced: false };
            let (st, found) = xplore::bfs(&sys, &caps);
            println!("C04 decode-buffer: window={w} dict={} states={} transitions={} depth={} exhausted={} {:.1}s {:?}", d.len(), st.states, st.transitions, st.max_depth, st.exhausted, st.wall_s, st.cap_hit);
            if let Some(n) = &st.nondeterminism {
                run.machinery_error(format!("decode-buffer system: {n}"));
            }
            all_exhausted &= st.exhausted;
            bstates += st.states;
            btrans += st.transitions;
            report(&mut run, &sys, "decode_buffer", json!({"window": w, "dict": d, "max_len": max_len}), found, dop_json);
        }
    }
    run.set("decode_buffer_states", bstates);
    run.set("decode_buffer_transitions", btrans);
    run.set("decode_buffer_windows", json!(windows));
    run.set("decode_buffer_max_held", max_len as u64);
    run.sample(json!({"system": "decode_buffer", "window": 4, "dict_len": 5, "ops": [dop_json(&DOp::Push(3)), dop_json(&DOp::Repeat(6, 7)), dop_json(&DOp::Read(3))], "note": "match starting 3 bytes inside the dictionary, running through the 3 pushed bytes and overlapping itself"}));
    states += bstates;
    transitions += btrans;
    run.set("states", states);
    run.set("transitions", transitions);
    run.set("traces_validated_against_impl", transitions);
    run.set("exhaustive", all_exhausted);
    run.set("rule", "state = operation history on the real RingBuffer / DecodeBuffer, de-duplicated on (cap, head, tail) [+ output-vs-window counters]; every enabled operation with every operand size is applied at every reachable state up to the capacity bound; each transition is executed on two instances with different allocator poison and compared with a VecDeque / Vec model; guard zones around the allocation are checked after every step");
    run.assume("every branch of ringbuffer.rs compares cap, head, tail, start, len and multiples of the copy width only; contents never influence control flow, so equal (cap, head, tail) means equal futures");
    run.assume("guard zones of 256 bytes detect stray writes up to that distance; farther ones are left to the ASan/Miri tiers");
    run.assume("operations are restricted to the preconditions DecodeBuffer establishes: drop_first_n(1..=len), copy-from-within preceded by reserve with start+len<=len and len>=1");
    run.finish()
}

fn do_replay(r: &Value) -> i32 {
    let ops = r["ops"].as_array().expect("ops");
    let mut res = vec![];
    for _ in 0..2 {
        let out = match r["system"].as_str().unwrap() {
            "ring" => {
                let sys = RingSys { max_cap: r["params"]["max_cap"].as_u64().unwrap() as usize, boundary_only: false, all_branchless: true };
                let ops: Vec<ROp> = ops.iter().map(rop_from).collect();
                xplore::replay(&sys, &ops).err()
            }
            _ => {
                let p = &r["params"];
                let sys = BufSys { window: p["window"].as_u64().unwrap() as usize, dict: p["dict"].as_array().unwrap().iter().map(|x| x.as_u64().unwrap() as u8).collect(), max_len: p["max_len"].as_u64().unwrap() as usize, reduced: false };
                let ops: Vec<DOp> = ops.iter().map(dop_from).collect();
                xplore::replay(&sys, &ops).err()
            }
        };
        res.push(out);
    }
    println!("replay run 1: {:?}\nreplay run 2: {:?}", res[0], res[1]);
    if res[0] != res[1] {
        println!("NONDETERMINISTIC replay");
        return 2;
    }
    if res[0].is_some() {
        println!("VIOLATION property=C04 replay=(given file)");
        1
    } else {
        0
    }
}
