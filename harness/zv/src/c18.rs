//! C18 — behaviour is the same with and without the std I/O layer and the hash feature. One driver built four
//! times ({std, no_std} x {hash, no hash}); identical case file; outputs compared line by line.
use crate::cmp;
use crate::ev::{hex, Run, Tier, Violation};
use serde_json::{json, Value};
use std::process::Command;

const CONFIGS: [&str; 4] = ["std_hash", "std", "hash", "none"];

fn cases(tier: Tier) -> Vec<(char, Vec<u8>, String)> {
    let mut v: Vec<(char, Vec<u8>, String)> = vec![];
    // compressor inputs: small scope over {a,b} and the threshold families
    let maxlen = tier.pick(10usize, 13);
    for len in 0..=maxlen {
        for i in 0..(1usize << len) {
            v.push(('C', (0..len).map(|b| b'a' + ((i >> b) & 1) as u8).collect(), format!("string over {{a,b}} of length {len}")));
        }
    }
    const B: usize = 128 * 1024;
    for n in [0usize, 1, 5, 1000, 1025, 16384, B - 1, B, B + 1, 2 * B, 2 * B + 1] {
        v.push(('C', cmp::text_like(n, 3), format!("text, {n} bytes")));
        v.push(('C', cmp::unique(n, 5), format!("incompressible, {n} bytes")));
        v.push(('C', vec![9; n], format!("constant, {n} bytes")));
        v.push(('C', cmp::skewed(n, 40, 7), format!("skewed, {n} bytes")));
    }
    // frames: the repository's decode corpus, seed frames, truncations
    let repo = std::env::var("VERIF_REPO").unwrap_or_else(|_| "/repo".into());
    let mut corpus: Vec<std::path::PathBuf> = std::fs::read_dir(format!("{repo}/ruzstd/decodecorpus_files")).map(|d| d.filter_map(|e| e.ok()).map(|e| e.path()).filter(|p| p.extension().map(|x| x == "zst").unwrap_or(false)).collect()).unwrap_or_default();
    corpus.sort();
    for p in corpus.iter().take(tier.pick(40, 200)) {
        if let Ok(f) = std::fs::read(p) {
            if f.len() < 400_000 {
                v.push(('D', f.clone(), format!("corpus {}", p.file_name().unwrap().to_string_lossy())));
                v.push(('D', f[..f.len() / 2].to_vec(), format!("corpus {} cut in half", p.file_name().unwrap().to_string_lossy())));
            }
        }
    }
    for s in crate::seeds::small(600, tier.pick(120, 400)) {
        v.push(('D', s.frame.clone(), format!("seed {}", s.name)));
        for k in [1usize, 4, 5, 7, s.frame.len() - 5, s.frame.len() - 1] {
            if k < s.frame.len() {
                v.push(('D', s.frame[..k].to_vec(), format!("seed {} cut at {k}", s.name)));
            }
        }
    }
    // multi-frame + skippable
    let a = crate::seeds::windowed(true, 2).frame;
    let mut m = a.clone();
    m.extend_from_slice(&[0x53, 0x2A, 0x4D, 0x18, 3, 0, 0, 0, 1, 2, 3]);
    m.extend_from_slice(&a);
    v.push(('D', m, "frame, skippable frame, frame".into()));
    // histories on one decoder with dictionaries registered: every sequence of <= 3/4 frames of a small world
    match crate::c09::history_world() {
        Ok((dicts, frames)) => {
            for d in dicts {
                v.push(('X', d, "register dictionary".into()));
            }
            for (name, f) in &frames {
                v.push(('F', f.clone(), format!("define frame: {name}")));
            }
            let n = frames.len();
            let depth = tier.pick(3u32, 4);
            for len in 1..=depth {
                for mut k in 0..n.pow(len) {
                    let mut seq = vec![];
                    for _ in 0..len {
                        seq.push((k % n) as u8);
                        k /= n;
                    }
                    let name = format!("history on one decoder: {:?}", seq.iter().map(|i| frames[*i as usize].0.as_str()).collect::<Vec<_>>());
                    v.push(('H', seq, name));
                }
            }
        }
        Err(e) => v.push(('D', vec![], format!("MODEL: history world unavailable: {e}"))),
    }
    // the same for the compressor: every history of <= 2/3 inputs through one FrameCompressor (Fastest)
    {
        const B: usize = 128 * 1024;
        let ins: Vec<(String, Vec<u8>)> = vec![("empty".into(), vec![]), ("one byte".into(), b"x".to_vec()), ("text 3000".into(), crate::cmp::text_like(3000, 1)), ("skewed block".into(), crate::cmp::skewed(B, 60, 9)), ("skewed block + 7000".into(), crate::cmp::skewed(B + 7000, 60, 10)), ("incompressible two blocks".into(), crate::cmp::unique(2 * B, 3)), ("constant block + 1".into(), vec![7; B + 1]), ("period 23".into(), (0..50_000).map(|i| (i % 23) as u8).collect())];
        for (name, d) in &ins {
            v.push(('I', d.clone(), format!("define input: {name}")));
        }
        let n = ins.len();
        for len in 1..=tier.pick(2u32, 3) {
            for mut k in 0..n.pow(len) {
                let mut seq = vec![];
                for _ in 0..len {
                    seq.push((k % n) as u8);
                    k /= n;
                }
                let name = format!("inputs through one compressor: {:?}", seq.iter().map(|i| ins[*i as usize].0.as_str()).collect::<Vec<_>>());
                v.push(('R', seq, name));
            }
        }
    }
    v
}

pub fn main(tier: Tier, replay: Option<Value>) -> i32 {
    if replay.is_some() {
        println!("C18 replays are case descriptions; rerun ./check C18");
        return 2;
    }
    let mut run = Run::new("C18", "exploration", tier);
    let dir = crate::ev::verif_dir();
    let work = dir.join(".work").join(format!("c18-{}", std::process::id()));
    let _ = std::fs::create_dir_all(&work);
    let cs = cases(tier);
    let file = work.join("cases.txt");
    std::fs::write(&file, cs.iter().map(|c| format!("{} {}\n", c.0, hex(&c.1))).collect::<String>()).expect("case file");
    let mut outputs: Vec<Vec<String>> = vec![];
    let mut died: Vec<(String, String)> = vec![];
    let handles: Vec<_> = CONFIGS
        .iter()
        .map(|cfg| {
            let bin = dir.join(".target").join(format!("featdrv-{cfg}")).join("release").join("featdrv");
            let file = file.clone();
            std::thread::spawn(move || -> Result<(bool, String), String> {
                // the driver's output goes to a file so that a hung driver can be killed after a deadline
                let out_path = file.with_extension(format!("{}.out", bin.parent().unwrap().parent().unwrap().file_name().unwrap().to_string_lossy()));
                let out_file = std::fs::File::create(&out_path).map_err(|e| e.to_string())?;
                let mut child = Command::new(&bin).arg(&file).stdout(out_file).spawn().map_err(|e| format!("{}: {e}", bin.display()))?;
                let t0 = std::time::Instant::now();
                loop {
                    match child.try_wait().map_err(|e| e.to_string())? {
                        Some(st) => return Ok((st.success(), std::fs::read_to_string(&out_path).unwrap_or_default())),
                        None if t0.elapsed().as_secs() > 300 => {
                            let _ = child.kill();
                            let _ = child.wait();
                            return Ok((true, format!("HANG\n{}", std::fs::read_to_string(&out_path).unwrap_or_default())));
                        }
                        None => std::thread::sleep(std::time::Duration::from_millis(50)),
                    }
                }
            })
        })
        .collect();
    for (h, cfg) in handles.into_iter().zip(CONFIGS.iter()) {
        match h.join().unwrap() {
            Ok((true, out)) => outputs.push(out.lines().map(|l| l.to_string()).collect()),
            Ok((false, out)) => {
                // decided below: a driver that dies while the others finish is a difference between the builds
                died.push((cfg.to_string(), out.lines().last().unwrap_or("").to_string()));
                outputs.push(vec![]);
            }
            Err(e) => {
                run.machinery_error(format!("driver {cfg} could not be run (is it built? tools/setup.py builds it): {e}"));
                outputs.push(vec![]);
            }
        }
    }
    let _ = std::fs::remove_dir_all(&work);
    for (o, cfg) in outputs.iter().zip(CONFIGS.iter()) {
        if o.first().map(|l| l == "HANG").unwrap_or(false) {
            let last = o.last().cloned().unwrap_or_default();
            let idx: usize = last.split(' ').next().and_then(|s| s.parse().ok()).map(|i: usize| i + 1).unwrap_or(0);
            run.violation(Violation { identity: format!("hang:{cfg}"), what: format!("the {cfg} build did not finish within 300 s; it stopped after output line [{}], i.e. in case [{}]", crate::ev::truncate(&last, 80), cs.get(idx).map(|c| c.2.clone()).unwrap_or("I/O shim closed system".into())), replay: json!({"case": "hang", "config": cfg}) });
            let _ = std::fs::remove_dir_all(&work);
            return run.finish();
        }
    }
    if !died.is_empty() {
        if died.len() == CONFIGS.len() {
            run.machinery_error(format!("all four drivers died: {:?}", died));
        } else {
            for (cfg, last) in &died {
                let idx: usize = last.split(' ').next().and_then(|s| s.parse().ok()).map(|i: usize| i + 1).unwrap_or(0);
                run.violation(Violation { identity: format!("died:{cfg}"), what: format!("the {cfg} build died (abort, stack overflow or out of memory) while other builds finished the same cases; its last output line was [{}], i.e. it died in case [{}]", crate::ev::truncate(last, 80), cs.get(idx).map(|c| c.2.clone()).unwrap_or("I/O shim closed systems".into())), replay: json!({"case": "died", "config": cfg}) });
            }
        }
        return run.finish();
    }
    if outputs.iter().any(|o| o.len() != cs.len() + 2) {
        run.machinery_error(format!("driver outputs have {:?} lines, expected {}", outputs.iter().map(|o| o.len()).collect::<Vec<_>>(), cs.len() + 2));
        return run.finish();
    }
    // line 0: configuration echo; line 1: the I/O shim closed system
    for (o, cfg) in outputs.iter().zip(CONFIGS.iter()) {
        let want = format!("config std={} hash={}", cfg.contains("std"), cfg.contains("hash"));
        if o[0] != want {
            run.machinery_error(format!("driver {cfg} reports [{}], expected [{want}]", o[0]));
        }
        let shim = &o[1];
        // two closed systems on the line ("... || chunked sources: ..."); each reports cases= and mismatches=
        let n: u64 = shim.split("cases=").skip(1).filter_map(|s| s.split(' ').next().and_then(|s| s.parse::<u64>().ok())).sum();
        run.add("evaluations", n);
        run.set(&format!("io_shim_cases_{cfg}"), n);
        if shim.matches("mismatches=0").count() != 2 || shim.matches("mismatches=").count() != 2 {
            run.violation(Violation { identity: format!("io_shim:{cfg}"), what: format!("the crate's Read/Write/Take in the {cfg} build differ from std::io: {}", crate::ev::truncate(shim, 500)), replay: json!({"case": "io shim", "config": cfg}) });
        }
    }
    let mut nontrivial = 0u64;
    for (i, c) in cs.iter().enumerate() {
        let lines: Vec<&str> = outputs.iter().map(|o| o[i + 2].splitn(3, ' ').nth(2).unwrap_or("")).collect();
        run.add("evaluations", 4);
        if c.0 != 'C' && c.0 != 'R' {
            // all four decoders agree (bytes and error class; for histories: the outcome of every frame)
            if lines.iter().any(|l| *l != lines[0]) {
                run.violation(Violation { identity: format!("decoder_differs:{}", if lines[0] == lines[1] && lines[2] == lines[3] { "std_vs_nostd" } else { "hash_vs_nohash" }), what: format!("[{}] decoder outcome differs between builds: std+hash [{}], std [{}], hash [{}], none [{}]", c.2, lines[0], lines[1], lines[2], lines[3]), replay: json!({"case": c.2, "frame": crate::ev::show(&c.1)}) });
            } else if lines[0].starts_with("ok") {
                nontrivial += 1;
            }
        } else {
            // per level "raw_digest/len:normalised_digest/len"
            let parse = |l: &str| -> Vec<(String, String)> { l.split(' ').map(|p| p.split_once(':').map(|(a, b)| (a.to_string(), b.to_string())).unwrap_or((p.to_string(), p.to_string()))).collect() };
            let p: Vec<Vec<(String, String)>> = lines.iter().map(|l| parse(l)).collect();
            let bad_marker = lines.iter().any(|l| l.contains("panic") || l.contains("flag"));
            let norm_equal = p.iter().all(|x| x.iter().map(|y| &y.1).collect::<Vec<_>>() == p[0].iter().map(|y| &y.1).collect::<Vec<_>>());
            let raw_std_nostd = p[0].iter().map(|y| &y.0).collect::<Vec<_>>() == p[2].iter().map(|y| &y.0).collect::<Vec<_>>() && p[1].iter().map(|y| &y.0).collect::<Vec<_>>() == p[3].iter().map(|y| &y.0).collect::<Vec<_>>();
            if bad_marker || !norm_equal || !raw_std_nostd {
                run.violation(Violation { identity: format!("compressor_differs:{}", if bad_marker { "flag_or_panic" } else if !raw_std_nostd { "std_vs_nostd" } else { "hash_changes_more_than_flag_and_trailer" }), what: format!("[{}] compressor output differs between builds beyond the checksum flag and trailer: std+hash [{}], std [{}], hash [{}], none [{}]", c.2, lines[0], lines[1], lines[2], lines[3]), replay: json!({"case": c.2, "input": crate::ev::show(&c.1)}) });
            } else if c.1.len() >= 5 || c.0 == 'R' {
                nontrivial += 1;
            }
        }
    }
    run.set("distinct_nontrivial", nontrivial);
    run.set("cases", cs.len() as u64);
    run.set("builds", json!(CONFIGS));
    run.set("exhaustive", false);
    run.set("rule", "four release builds of one driver against ruzstd with features {std,hash}, {std}, {hash}, {} read the same case file: every string over {a,b} up to length 10/13 and length-threshold inputs (compressed at both levels), the repository's decode corpus, seed frames and their truncations, a multi-frame input (decoded through decode_all_to_vec and the streaming reader). All four decoder outcomes (digest and length of the bytes, or the error variant) must be equal; compressor output must be byte-identical between std and no_std builds, and the hash-off output must equal the hash-on output with the checksum flag cleared and the last 4 bytes removed. In every build the crate's Read / read_exact / take / Write / write_all are run as a closed system against std::io: every (slice length 0..=4, buffer length 0..=4, limit 0..=5, program of <= 3 operations). non-trivial = successful decodes and inputs of at least 5 bytes");
    run.sample(json!({"case": "C string 'abbabbabba'", "expected": "same normalised digest in all four builds"}));
    run.sample(json!({"io_shim": {"slice": 3, "buffer": 4, "limit": 2, "ops": ["take(2).read", "read_exact", "write_all"]}}));
    run.assume("error messages are not compared, only the error variant; the state of a reader after a failed read_exact is not compared");
    run.finish()
}
