//! Decoder front ends, run with panics captured. Every front end reports what it delivered, how it ended and
//! what it says it consumed.
use crate::meter::guarded;
use ruzstd::decoding::{BlockDecodingStrategy as S, FrameDecoder, StreamingDecoder};
use std::io::Read;

#[derive(Debug, Clone, PartialEq)]
pub enum End {
    Ok,
    /// error with a short class string
    Err(String),
    Panic(String),
}
#[derive(Debug, Clone, PartialEq)]
pub struct Outcome {
    pub end: End,
    pub delivered: Vec<u8>,
    /// bytes_read_from_source at the end, where the front end exposes it
    pub consumed: Option<u64>,
    pub finished: bool,
    pub content_size: u64,
    pub checksum_from_data: Option<u32>,
    pub checksum_calculated: Option<u32>,
    /// blocks_decoded() at the end (a counter that must not survive from an earlier frame)
    pub blocks: usize,
}
impl Outcome {
    pub fn is_ok_with(&self, want: &[u8]) -> bool {
        self.end == End::Ok && self.delivered == want
    }
    pub fn brief(&self) -> String {
        format!("{:?} delivered={} consumed={:?} finished={}", self.end, self.delivered.len(), self.consumed, self.finished)
    }
}

fn errclass(e: &dyn std::fmt::Debug) -> String {
    let s = format!("{e:?}");
    crate::ev::truncate(&s, 120)
}

pub const FRONT_ENDS: [&str; 8] = ["streaming_read_4096", "streaming_read_1", "decode_blocks_all", "decode_blocks_upto1", "decode_blocks_uptobytes1", "decode_from_to_7", "decode_all", "decode_all_to_vec"];

/// a reader that hands out at most `k` bytes per call and counts what was pulled
pub struct Trickle<'a> {
    pub data: &'a [u8],
    pub k: usize,
    pub pulled: usize,
}
impl Read for Trickle<'_> {
    fn read(&mut self, buf: &mut [u8]) -> std::io::Result<usize> {
        let n = buf.len().min(self.k).min(self.data.len());
        buf[..n].copy_from_slice(&self.data[..n]);
        self.data = &self.data[n..];
        self.pulled += n;
        Ok(n)
    }
}

fn finish(dec: &FrameDecoder, end: End, delivered: Vec<u8>) -> Outcome {
    Outcome { end, delivered, consumed: Some(dec.bytes_read_from_source()), finished: dec.is_finished(), content_size: dec.content_size(), checksum_from_data: dec.get_checksum_from_data(), checksum_calculated: dec.get_calculated_checksum(), blocks: dec.blocks_decoded() }
}

/// run one front end over `data` on `dec` (possibly a reused decoder). `limit` bounds the delivered bytes so
/// that hostile input cannot exhaust memory through the harness itself.
pub fn run_on(dec: &mut FrameDecoder, fe: usize, data: &[u8], limit: usize) -> Outcome {
    let mut delivered: Vec<u8> = Vec::new();
    let r = guarded(|| -> End {
        match fe {
            0 | 1 => {
                let chunk = if fe == 0 { 4096 } else { 1 };
                let mut sd = match StreamingDecoder::new_with_decoder(data, &mut *dec) {
                    Ok(s) => s,
                    Err(e) => return End::Err(errclass(&e)),
                };
                let mut b = vec![0u8; chunk];
                loop {
                    match sd.read(&mut b) {
                        Ok(0) => return End::Ok,
                        Ok(n) => {
                            delivered.extend_from_slice(&b[..n]);
                            if delivered.len() > limit {
                                return End::Err("harness output limit".into());
                            }
                        }
                        Err(e) => return End::Err(errclass(&e)),
                    }
                }
            }
            2 | 3 | 4 => {
                let mut src = data;
                if let Err(e) = dec.reset(&mut src) {
                    return End::Err(errclass(&e));
                }
                loop {
                    let strat = match fe {
                        2 => S::All,
                        3 => S::UptoBlocks(1),
                        _ => S::UptoBytes(1),
                    };
                    let r = dec.decode_blocks(&mut src, strat);
                    if let Some(v) = dec.collect() {
                        delivered.extend(v);
                    }
                    match r {
                        Err(e) => return End::Err(errclass(&e)),
                        Ok(_) => {
                            if dec.is_finished() {
                                if let Some(v) = dec.collect() {
                                    delivered.extend(v);
                                }
                                return End::Ok;
                            }
                        }
                    }
                    if delivered.len() > limit {
                        return End::Err("harness output limit".into());
                    }
                }
            }
            5 => {
                // slice-to-slice, source offered in growing windows starting at the consumed position
                let mut pos = 0usize;
                // the first call must see the whole frame header (at most 18 bytes); after that 7-byte windows
                // that grow only when the decoder reports that it needs a complete block
                let mut offer = 18usize;
                let mut tgt = [0u8; 64];
                let mut fresh = FrameDecoder::new();
                std::mem::swap(dec, &mut fresh); // decode_from_to initialises only a decoder without state
                let mut idle = 0;
                loop {
                    let end = (pos + offer).min(data.len());
                    let (r, w) = match dec.decode_from_to(&data[pos..end], &mut tgt) {
                        Ok(x) => x,
                        Err(e) => return End::Err(errclass(&e)),
                    };
                    if r > end - pos {
                        return End::Err(format!("decode_from_to consumed {r} of {} offered", end - pos));
                    }
                    pos += r;
                    if r > 0 && offer == 18 {
                        offer = 7;
                    }
                    delivered.extend_from_slice(&tgt[..w]);
                    if delivered.len() > limit {
                        return End::Err("harness output limit".into());
                    }
                    if dec.is_finished() && dec.can_collect() == 0 && (r > 0 || w > 0 || pos > 0) {
                        return End::Ok;
                    }
                    if r == 0 && w == 0 {
                        if end == data.len() {
                            idle += 1;
                            if idle > 1 {
                                return End::Err("no progress: input exhausted".into());
                            }
                        } else {
                            offer = (offer * 2).min(data.len() + 1);
                        }
                    } else {
                        idle = 0;
                    }
                }
            }
            6 => {
                let mut out = vec![0u8; limit];
                match dec.decode_all(data, &mut out) {
                    Ok(n) => {
                        out.truncate(n);
                        delivered = out;
                        End::Ok
                    }
                    Err(e) => End::Err(errclass(&e)),
                }
            }
            _ => {
                let mut out = Vec::with_capacity(limit);
                match dec.decode_all_to_vec(data, &mut out) {
                    Ok(()) => {
                        delivered = out;
                        End::Ok
                    }
                    Err(e) => End::Err(errclass(&e)),
                }
            }
        }
    });
    let end = match r {
        Ok(e) => e,
        Err(p) => End::Panic(p),
    };
    finish(dec, end, delivered)
}

pub fn run(fe: usize, data: &[u8], limit: usize) -> Outcome {
    let mut dec = FrameDecoder::new();
    run_on(&mut dec, fe, data, limit)
}
