//! C19 — command-line compress then decompress restores the file byte for byte. The option matrix is explored
//! completely through the real binary in fresh directories.
use crate::cmp;
use crate::ev::{Run, Tier, Violation};
use crate::refz;
use serde_json::{json, Value};
use std::path::{Path, PathBuf};
use std::process::Command;

struct Res {
    code: Option<i32>,
    panicked: bool,
    stderr: String,
}

fn run_cli(cli: &Path, cwd: &Path, args: &[&str]) -> Res {
    match Command::new(cli).args(args).current_dir(cwd).env("NO_COLOR", "1").output() {
        Ok(o) => {
            let stderr = String::from_utf8_lossy(&o.stderr).to_string();
            Res { code: o.status.code(), panicked: stderr.contains("panicked at") || o.status.code() == Some(101), stderr }
        }
        Err(e) => Res { code: None, panicked: false, stderr: format!("spawn failed: {e}") },
    }
}

pub fn main(tier: Tier, replay: Option<Value>) -> i32 {
    if replay.is_some() {
        println!("C19 replays are case descriptions; rerun ./check C19");
        return 2;
    }
    let mut run = Run::new("C19", "exploration", tier);
    let dir = crate::ev::verif_dir();
    let cli = std::env::var("VERIF_CLI").map(PathBuf::from).unwrap_or_else(|_| dir.join(".target/cli/release/ruzstd-cli"));
    if !cli.exists() {
        run.machinery_error(format!("{} is not built (./check builds it; tools/setup.py too)", cli.display()));
        return run.finish();
    }
    let root = dir.join(".work").join(format!("c19-{}", std::process::id()));
    let _ = std::fs::remove_dir_all(&root);
    const B: usize = 128 * 1024;
    let mut contents: Vec<(&str, Vec<u8>)> = vec![("empty", vec![]), ("one byte", vec![b'x']), ("text", cmp::text_like(5000, 1)), ("one block - 1", cmp::text_like(B - 1, 2)), ("one block", cmp::text_like(B, 3)), ("one block + 1", cmp::text_like(B + 1, 4)), ("incompressible 300 KB", cmp::unique(300_000, 5)), ("rle", vec![b'r'; 70_000]), ("binary with newlines and NULs", (0..4000u32).map(|i| [0u8, b'\n', 0xFF, b'\r'][(i % 4) as usize]).collect())];
    if tier == Tier::Thorough {
        contents.push(("text 3 MB", cmp::text_like(3_000_000, 6)));
        contents.push(("skewed 1 MB", cmp::skewed(1_000_000, 60, 7)));
        contents.push(("two blocks exactly", cmp::unique(2 * B, 8)));
    }
    let levels: Vec<(&str, Option<&str>, bool)> = vec![("absent", None, true), ("0", Some("0"), true), ("1", Some("1"), true), ("2", Some("2"), false), ("3", Some("3"), false), ("4", Some("4"), false), ("5", Some("5"), false), ("255", Some("255"), false), ("256", Some("256"), false), ("x", Some("x"), false)];
    let mut evals = 0u64;
    let mut ok_roundtrips = 0u64;
    let mut refused = 0u64;
    for (ci, (cname, data)) in contents.iter().enumerate() {
        for (lname, larg, must_work) in &levels {
            for explicit_out in [true, false] {
                for short_flag in [false, true] {
                    if short_flag && (larg.is_none() || ci > 1) {
                        continue;
                    }
                    evals += 1;
                    let d = root.join(format!("c{ci}-l{lname}-{}-{}", explicit_out as u8, short_flag as u8));
                    let other = d.join("elsewhere");
                    std::fs::create_dir_all(&other).unwrap();
                    std::fs::write(d.join("input.dat"), data).unwrap();
                    let mut args: Vec<&str> = vec!["compress", "input.dat"];
                    if explicit_out {
                        args.push("out.bin.zst");
                    }
                    if let Some(l) = larg {
                        args.push(if short_flag { "-l" } else { "--level" });
                        args.push(l);
                    }
                    let r = run_cli(&cli, &d, &args);
                    let out_path = d.join(if explicit_out { "out.bin.zst" } else { "input.dat.zst" });
                    let rp = json!({"content": cname, "level": lname, "explicit_output": explicit_out, "args": args});
                    let case = format!("compress [{cname}] level {lname}, {} output", if explicit_out { "explicit" } else { "defaulted" });
                    if *must_work {
                        if r.code != Some(0) || !out_path.exists() {
                            run.violation(Violation { identity: format!("compress_failed:level_{lname}"), what: format!("{case}: exit status {:?}{}, output file exists: {} ({} bytes); stderr: {}", r.code, if r.panicked { " (panic)" } else { "" }, out_path.exists(), std::fs::metadata(&out_path).map(|m| m.len()).unwrap_or(0), crate::ev::truncate(r.stderr.trim(), 200)), replay: rp });
                            continue;
                        }
                        let z = std::fs::read(&out_path).unwrap();
                        match refz::decode(&z) {
                            Ok(p) if p == *data => {}
                            other => {
                                run.violation(Violation { identity: format!("reference_rejects:level_{lname}"), what: format!("{case}: libzstd does not restore the file from the {}-byte output: {:?}", z.len(), other.map(|v| v.len())), replay: rp });
                                continue;
                            }
                        }
                        // decompress: explicit target in the same directory, and defaulted target from another directory
                        for explicit_dec in [true, false] {
                            let (cwd, args2, restored): (&Path, Vec<String>, PathBuf) = if explicit_dec { (&d, vec!["decompress".into(), out_path.to_string_lossy().to_string(), "restored.dat".into()], d.join("restored.dat")) } else { (&other, vec!["decompress".into(), out_path.to_string_lossy().to_string()], other.join(out_path.file_stem().unwrap())) };
                            let a2: Vec<&str> = args2.iter().map(|s| s.as_str()).collect();
                            let r2 = run_cli(&cli, cwd, &a2);
                            let got = std::fs::read(&restored).ok();
                            if r2.code != Some(0) || got.as_deref() != Some(&data[..]) {
                                run.violation(Violation { identity: format!("decompress:level_{lname}:{}", if explicit_dec { "explicit" } else { "defaulted" }), what: format!("{case}, then decompress ({} target): exit status {:?}, restored file {:?} bytes, original {}; stderr: {}", if explicit_dec { "explicit" } else { "defaulted" }, r2.code, got.map(|g| g.len()), data.len(), crate::ev::truncate(r2.stderr.trim(), 200)), replay: rp.clone() });
                            } else {
                                ok_roundtrips += 1;
                            }
                        }
                    } else {
                        // an operation that cannot be carried out: failure through the exit status, and no panic
                        // that leaves something looking like a result
                        let exists = out_path.exists();
                        if r.code == Some(0) {
                            // accepted after all: then it must be a real result
                            let good = exists && refz::decode(&std::fs::read(&out_path).unwrap()).map(|p| p == *data).unwrap_or(false);
                            if !good {
                                run.violation(Violation { identity: format!("unsupported_level_exit0:level_{lname}"), what: format!("{case}: exit status 0 but the output is not a valid compression of the input"), replay: rp });
                            }
                        } else if r.panicked && exists {
                            run.violation(Violation { identity: format!("panic_leaves_output:level_{lname}"), what: format!("{case}: the tool panicked (exit status {:?}) and left {} ({} bytes) behind, which looks like a result; stderr: {}", r.code, out_path.file_name().unwrap().to_string_lossy(), std::fs::metadata(&out_path).map(|m| m.len()).unwrap_or(0), crate::ev::truncate(r.stderr.trim(), 160)), replay: rp });
                        } else {
                            refused += 1;
                        }
                    }
                }
            }
        }
    }
    // decompress of something that is not a frame / of a missing file: failure status
    {
        let d = root.join("bad");
        std::fs::create_dir_all(&d).unwrap();
        std::fs::write(d.join("garbage.zst"), b"this is not zstd").unwrap();
        for (args, what) in [(vec!["decompress", "garbage.zst", "g.out"], "garbage input"), (vec!["decompress", "missing.zst", "m.out"], "missing input"), (vec!["compress", "missing.dat", "m.zst"], "missing input to compress")] {
            evals += 1;
            let r = run_cli(&cli, &d, &args);
            if r.code == Some(0) {
                run.violation(Violation { identity: format!("bad_input_exit0:{what}"), what: format!("{what}: exit status 0"), replay: json!({"args": args}) });
            } else {
                refused += 1;
            }
        }
    }
    // more operations that cannot be carried out: a directory as input, an output path in a directory that does not
    // exist, and every strict prefix of a compressed file as input to decompress. Each must end with a failure
    // status; a panic is tolerated only if it leaves no output file behind (the property's wording).
    {
        let d = root.join("cannot");
        std::fs::create_dir_all(d.join("adir")).unwrap();
        std::fs::write(d.join("in.txt"), b"hello world ".repeat(2000)).unwrap();
        let ok = run_cli(&cli, &d, &["compress", "in.txt", "good.zst", "--level", "1"]);
        let good = std::fs::read(d.join("good.zst")).unwrap_or_default();
        if ok.code != Some(0) || good.is_empty() {
            // a tool that cannot compress a small file at level 1 is broken in the first place
            run.violation(Violation { identity: "compress_failed:level_1:small_file".into(), what: format!("compress of a 24 000-byte file at level 1 (needed to derive the truncated inputs): exit status {:?}, {} bytes written; stderr: {}", ok.code, good.len(), crate::ev::truncate(ok.stderr.trim(), 200)), replay: json!({"args": ["compress", "in.txt", "good.zst", "--level", "1"]}) });
        } else {
            let mut ops: Vec<(Vec<String>, String, Option<String>)> = vec![
                (vec!["compress".into(), "adir".into(), "adir-out.zst".into()], "compress a directory (explicit output)".into(), Some("adir-out.zst".into())),
                (vec!["compress".into(), "adir".into()], "compress a directory (defaulted output)".into(), Some("adir.zst".into())),
                (vec!["decompress".into(), "adir".into(), "adir.out".into()], "decompress a directory".into(), Some("adir.out".into())),
                (vec!["compress".into(), "in.txt".into(), "nodir/out.zst".into()], "compress into a directory that does not exist".into(), Some("nodir/out.zst".into())),
                (vec!["decompress".into(), "good.zst".into(), "nodir/out.txt".into()], "decompress into a directory that does not exist".into(), Some("nodir/out.txt".into())),
                (vec!["compress".into(), "in.txt".into(), "adir".into()], "compress with a directory as output path".into(), None),
                (vec!["decompress".into(), "good.zst".into(), "adir".into()], "decompress with a directory as output path".into(), None),
                (vec!["decompress".into(), "in.txt".into(), "notzstd.out".into()], "decompress a file that is not compressed".into(), Some("notzstd.out".into())),
            ];
            for cut in 0..good.len() {
                let name = format!("cut{cut}.zst");
                std::fs::write(d.join(&name), &good[..cut]).unwrap();
                ops.push((vec!["decompress".into(), name, format!("cut{cut}.out")], format!("decompress the first {cut} of {} bytes of a compressed file", good.len()), Some(format!("cut{cut}.out"))));
            }
            let results = crate::meter::par_map(ops.len(), crate::meter::threads(), |i| {
                let a: Vec<&str> = ops[i].0.iter().map(|s| s.as_str()).collect();
                run_cli(&cli, &d, &a)
            });
            for ((args, what, out), r) in ops.iter().cloned().zip(results) {
                evals += 1;
                let out_path = out.map(|o| d.join(o));
                let exists = out_path.as_ref().map_or(false, |p| p.is_file());
                let rp = json!({"args": args, "what": what});
                let class = what.split(" the first").next().unwrap_or(&what).to_string();
                if r.code == Some(0) {
                    run.violation(Violation { identity: format!("cannot_be_carried_out_exit0:{class}"), what: format!("{what}: exit status 0"), replay: rp });
                } else if r.panicked && exists {
                    run.violation(Violation { identity: format!("panic_leaves_output:{class}"), what: format!("{what}: the tool panicked (exit status {:?}) and left {} ({} bytes) behind, which looks like a result; stderr: {}", r.code, out_path.as_ref().unwrap().file_name().unwrap().to_string_lossy(), std::fs::metadata(out_path.as_ref().unwrap()).map(|m| m.len()).unwrap_or(0), crate::ev::truncate(r.stderr.trim(), 200)), replay: rp });
                } else {
                    refused += 1;
                }
            }
        }
    }
    // the output path already exists: the file system is part of the state the tool starts from. Every operation is
    // run onto an output path that is absent / empty / shorter garbage / longer garbage / the larger result of an
    // earlier run; what is at the path afterwards must be byte for byte what the same operation leaves in a fresh
    // directory (and restore the file), whatever was there before.
    {
        let big = cmp::text_like(200_000, 21);
        let small_set: Vec<(&str, Vec<u8>)> = vec![("empty", vec![]), ("text 900", cmp::text_like(900, 22)), ("text 60 000", cmp::text_like(60_000, 23)), ("one block + 1", cmp::text_like(B + 1, 24))];
        let d0 = root.join("existing-setup");
        std::fs::create_dir_all(&d0).unwrap();
        std::fs::write(d0.join("big.dat"), &big).unwrap();
        let r0 = run_cli(&cli, &d0, &["compress", "big.dat", "big.zst", "--level", "1"]);
        let big_z = std::fs::read(d0.join("big.zst")).unwrap_or_default();
        if r0.code != Some(0) || big_z.is_empty() {
            run.violation(Violation { identity: "compress_failed:level_1:existing_setup".into(), what: format!("compress of a 200 000-byte text file at level 1: exit status {:?}, {} bytes written", r0.code, big_z.len()), replay: json!({"args": ["compress", "big.dat", "big.zst", "--level", "1"]}) });
        } else {
            let pre_states: Vec<(&str, Option<Vec<u8>>, Option<Vec<u8>>)> = vec![
                // (name, what is at the compress output path before, what is at the decompress output path before)
                ("absent", None, None),
                ("empty file", Some(vec![]), Some(vec![])),
                ("10 bytes of garbage", Some(vec![0x5A; 10]), Some(vec![0x5A; 10])),
                ("300 000 bytes of garbage", Some(vec![0xA5; 300_000]), Some(vec![0xA5; 300_000])),
                ("the larger result of an earlier run", Some(big_z.clone()), Some(big.clone())),
            ];
            let mut hist_cases = 0u64;
            for (ci, (cname, data)) in small_set.iter().enumerate() {
                for (li, larg) in [None, Some("0"), Some("1")].iter().enumerate() {
                    let mut fresh_z: Option<Vec<u8>> = None;
                    // explicit output paths, and (one level) the defaulted ones: <input>.zst beside the input, and
                    // the file stem in the directory decompress is run from
                    for (pi, explicit, (pname, pre_z, pre_plain)) in pre_states.iter().enumerate().flat_map(|(pi, p)| [(pi, true, p), (pi, false, p)]) {
                        if !explicit && li != 2 {
                            continue;
                        }
                        evals += 1;
                        hist_cases += 1;
                        let d = root.join(format!("existing-{ci}-{li}-{pi}-{}", explicit as u8));
                        let other = d.join("elsewhere");
                        std::fs::create_dir_all(&other).unwrap();
                        std::fs::write(d.join("input.dat"), data).unwrap();
                        let zname = if explicit { "out.zst" } else { "input.dat.zst" };
                        if let Some(p) = pre_z {
                            std::fs::write(d.join(zname), p).unwrap();
                        }
                        let mut args = vec!["compress", "input.dat"];
                        if explicit {
                            args.push("out.zst");
                        }
                        if let Some(l) = larg {
                            args.extend_from_slice(&["--level", l]);
                        }
                        let rp = json!({"content": cname, "args": args, "output_path_before": pname, "output_path": if explicit { "explicit" } else { "defaulted" }});
                        let r = run_cli(&cli, &d, &args);
                        let z = std::fs::read(d.join(zname)).ok();
                        let lname = larg.unwrap_or("absent");
                        let case = format!("compress [{cname}] level {lname} onto {} output path holding: {pname}", if explicit { "an explicit" } else { "the defaulted" });
                        let Some(z) = z.filter(|_| r.code == Some(0)) else {
                            run.violation(Violation { identity: format!("existing_output:compress_failed:{pname}"), what: format!("{case}: exit status {:?}; stderr: {}", r.code, crate::ev::truncate(r.stderr.trim(), 200)), replay: rp });
                            continue;
                        };
                        if pi == 0 && explicit {
                            fresh_z = Some(z.clone());
                        }
                        let same_as_fresh = fresh_z.as_ref().map_or(true, |f| *f == z);
                        let ref_ok = refz::decode(&z).map(|p| p == *data).unwrap_or(false);
                        if !same_as_fresh || !ref_ok {
                            run.violation(Violation { identity: format!("existing_output:compress:{pname}"), what: format!("{case}: the file at the output path afterwards ({} bytes) {} and libzstd {} the input from it", z.len(), if same_as_fresh { "equals the fresh-directory result".to_string() } else { format!("differs from the fresh-directory result ({} bytes)", fresh_z.as_ref().map_or(0, |f| f.len())) }, if ref_ok { "restores" } else { "does not restore" }), replay: rp });
                            continue;
                        }
                        // explicit: target named; defaulted: run from another directory, the target is the file stem there
                        let (cwd, target, args2): (&Path, PathBuf, Vec<String>) = if explicit { (&d, d.join("restored.dat"), vec!["decompress".into(), "out.zst".into(), "restored.dat".into()]) } else { (&other, other.join("input.dat"), vec!["decompress".into(), d.join(zname).to_string_lossy().to_string()]) };
                        if let Some(p) = pre_plain {
                            std::fs::write(&target, p).unwrap();
                        }
                        let a2: Vec<&str> = args2.iter().map(|s| s.as_str()).collect();
                        let r2 = run_cli(&cli, cwd, &a2);
                        let got = std::fs::read(&target).ok();
                        if r2.code != Some(0) || got.as_deref() != Some(&data[..]) {
                            run.violation(Violation { identity: format!("existing_output:decompress:{pname}"), what: format!("{case}, then decompress onto a path holding the same kind of content: exit status {:?}, restored file {:?} bytes, original {}; stderr: {}", r2.code, got.map(|g| g.len()), data.len(), crate::ev::truncate(r2.stderr.trim(), 200)), replay: rp });
                        } else {
                            ok_roundtrips += 2;
                        }
                        let _ = std::fs::remove_dir_all(&d);
                    }
                }
            }
            run.set("existing_output_cases", hist_cases);
        }
    }
    // the block encoder's decision automaton through the tool: every generator of C02's automaton alone and every
    // ordered pair of them as one file (so that every cross-block decision - table reuse, raw fallback after a
    // Huffman block, ... - is taken inside the process a user runs), compress at level 1 (alone: also without a
    // level) and decompress; in parallel, each case in its own directory
    {
        let gens = crate::c02::decision_gens(tier);
        let mut files: Vec<(Vec<usize>, bool)> = vec![];
        for a in 0..gens.len() {
            files.push((vec![a], false));
            files.push((vec![a], true));
            for b in 0..gens.len() {
                files.push((vec![a, b], true));
                if tier == Tier::Thorough {
                    files.push((vec![a, b], false));
                }
            }
        }
        let accs = crate::meter::par_fold(files.len(), crate::meter::threads(), crate::c12::Acc::default, |a, i| {
            let (seq, with_level) = &files[i];
            a.evals += 1;
            let mut data = vec![];
            for &g in seq {
                data.extend_from_slice(&gens[g].1);
            }
            data.extend_from_slice(b"short last block");
            let names: Vec<&str> = seq.iter().map(|&g| gens[g].0.as_str()).collect();
            let d = root.join(format!("auto-{i}"));
            std::fs::create_dir_all(&d).unwrap();
            std::fs::write(d.join("input.dat"), &data).unwrap();
            let mut args = vec!["compress", "input.dat", "out.zst"];
            if *with_level {
                args.extend_from_slice(&["--level", "1"]);
            }
            let rp = json!({"blocks": names, "tail": "short last block", "args": args});
            let case = format!("compress a file made of the blocks {names:?} + a short last block{}", if *with_level { " at level 1" } else { " without a level" });
            let r = run_cli(&cli, &d, &args);
            let z = std::fs::read(d.join("out.zst")).ok();
            if r.code != Some(0) || z.is_none() {
                a.bad(format!("automaton:compress_failed{}", if r.panicked { ":panic" } else { "" }), format!("{case}: exit status {:?}{}, output file: {:?} bytes; stderr: {}", r.code, if r.panicked { " (panic)" } else { "" }, z.map(|z| z.len()), crate::ev::truncate(r.stderr.trim(), 200)), rp);
            } else {
                let z = z.unwrap();
                match refz::decode(&z) {
                    Ok(p) if p == data => {
                        let r2 = run_cli(&cli, &d, &["decompress", "out.zst", "restored.dat"]);
                        let got = std::fs::read(d.join("restored.dat")).ok();
                        if r2.code != Some(0) || got.as_deref() != Some(&data[..]) {
                            a.bad("automaton:decompress".into(), format!("{case}, then decompress: exit status {:?}, restored file {:?} bytes, original {}; stderr: {}", r2.code, got.map(|g| g.len()), data.len(), crate::ev::truncate(r2.stderr.trim(), 200)), rp);
                        } else {
                            a.nontrivial += 1;
                        }
                    }
                    other => a.bad("automaton:reference_rejects".into(), format!("{case}: libzstd does not restore the file from the {}-byte output: {:?}", z.len(), other.map(|v| v.len())), rp),
                }
            }
            let _ = std::fs::remove_dir_all(&d);
        });
        for a in &accs {
            evals += a.evals;
            ok_roundtrips += 2 * a.nontrivial;
        }
        run.set("automaton_files", files.len() as u64);
        run.set("automaton_generators", gens.len() as u64);
        for a in accs {
            for v in a.viol {
                run.violation(v);
            }
        }
    }
    let _ = std::fs::remove_dir_all(&root);
    run.set("evaluations", evals);
    run.set("distinct_nontrivial", ok_roundtrips / 2 + refused);
    run.set("successful_roundtrips", ok_roundtrips);
    run.set("operations_refused_cleanly", refused);
    run.set("exhaustive", true);
    run.set("rule", "the built ruzstd-cli binary in fresh directories: level option {absent, 0, 1, 2, 3, 4, 5, 255, 256, 'x'} (long and short flag) x output path {explicit, defaulted} x 9/12 file contents (empty, 1 byte, text, one block -1/0/+1, incompressible 300 KB, RLE, binary with NULs); every produced file is decoded by libzstd and by the tool's decompress command with explicit and with defaulted target (run from another directory). Also: every operation onto an output path that already holds nothing / an empty file / shorter garbage / longer garbage / the larger result of an earlier run (4 contents x 3 levels x 5 prior states, explicit and - at level 1 - defaulted output paths: same bytes as in a fresh directory, file restored). Also: a directory as input, an output path in a directory that does not exist, and every strict prefix of a compressed file given to decompress (failure status required; a panic only if no output is left behind). Then every block generator of C02's decision automaton alone (with and without a level) and every ordered pair of them (level 1; thorough: also without) as one file through compress, libzstd and decompress. Implemented levels and no level: exit 0 and identical restored file. Otherwise: non-zero exit status and no panic that leaves an output file behind. non-trivial = completed round trips + cleanly refused operations");
    run.sample(json!({"args": ["compress", "input.dat"], "then": ["decompress", "<dir>/input.dat.zst"], "cwd_of_decompress": "another directory"}));
    run.finish()
}
