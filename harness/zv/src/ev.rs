//! Evidence, violation reporting, known findings. Every property check ends in `Run::finish`.
use serde_json::{json, Map, Value};
use std::path::PathBuf;
use std::time::Instant;

pub fn verif_dir() -> PathBuf {
    PathBuf::from(std::env::var("VERIF_DIR").unwrap_or_else(|_| "/verif".into()))
}

#[derive(Clone, Copy, PartialEq, Eq, Debug)]
pub enum Tier {
    Quick,
    Thorough,
}
impl Tier {
    pub fn name(self) -> &'static str {
        match self {
            Tier::Quick => "quick",
            Tier::Thorough => "thorough",
        }
    }
    pub fn pick<T>(self, q: T, t: T) -> T {
        match self {
            Tier::Quick => q,
            Tier::Thorough => t,
        }
    }
}

/// One violation: `identity` is the stable, specific identity matched against known_findings.json.
#[derive(Clone, Debug)]
pub struct Violation {
    pub identity: String,
    pub what: String,
    pub replay: Value,
}

pub struct Run {
    pub id: &'static str,
    pub tier: Tier,
    pub seed: u64,
    pub level: &'static str,
    t0: Instant,
    pub cov: Map<String, Value>,
    pub assumptions: Vec<String>,
    violations: Vec<Violation>,
    samples: Vec<Value>,
    pub machinery_errors: Vec<String>,
}

impl Run {
    pub fn new(id: &'static str, level: &'static str, tier: Tier) -> Run {
        let seed = std::env::var("VERIF_SEED").ok().and_then(|s| s.parse().ok()).unwrap_or(1);
        // a case of an in-process enumeration that does not return is reported from the watchdog thread (the run
        // itself cannot go on: the stuck worker cannot be stopped), see meter.rs
        *crate::meter::HANG_REPORT.lock().unwrap_or_else(|e| e.into_inner()) = Some(Box::new(move |idx, secs| {
            let mut r = Run { id, tier, seed, level, t0: Instant::now(), cov: Map::new(), assumptions: vec![], violations: vec![], samples: vec![], machinery_errors: vec![] };
            r.violation(Violation { identity: "hang:case_does_not_return".into(), what: format!("a case of the enumeration (index {idx} of the sub-enumeration named in the last progress line above) has been running for {secs} s; cases take micro- to milliseconds: the code under test does not terminate on it", ), replay: serde_json::json!({"hang": true, "case_index": idx}) });
            r.set("exhaustive", false);
            r.set("ended_by_case_watchdog", true);
            let code = r.finish();
            std::process::exit(code);
        }));
        Run { id, tier, seed, level, t0: Instant::now(), cov: Map::new(), assumptions: vec![], violations: vec![], samples: vec![], machinery_errors: vec![] }
    }
    pub fn set(&mut self, k: &str, v: impl Into<Value>) {
        self.cov.insert(k.to_string(), v.into());
    }
    pub fn add(&mut self, k: &str, n: u64) {
        let cur = self.cov.get(k).and_then(|v| v.as_u64()).unwrap_or(0);
        self.cov.insert(k.to_string(), json!(cur + n));
    }
    pub fn get(&self, k: &str) -> u64 {
        self.cov.get(k).and_then(|v| v.as_u64()).unwrap_or(0)
    }
    pub fn sample(&mut self, v: Value) {
        if self.samples.len() < 12 {
            self.samples.push(v);
        }
    }
    pub fn assume(&mut self, s: &str) {
        self.assumptions.push(s.to_string());
    }
    pub fn violation(&mut self, v: Violation) {
        // disagreements between the model and the reference implementation are failures of the machinery
        if v.identity.starts_with("MODEL:") {
            if self.machinery_errors.len() < 10 {
                self.machinery_error(format!("{}: {}", v.identity, truncate(&v.what, 400)));
            }
            return;
        }
        // de-duplicate on identity: the first (shortest, simplest-first enumeration) is kept
        if self.violations.iter().any(|x| x.identity == v.identity) {
            self.add("duplicate_violations_suppressed", 1);
            return;
        }
        if self.violations.len() < 200 {
            self.violations.push(v);
        }
    }
    pub fn violations_so_far(&self) -> usize {
        self.violations.len()
    }
    pub fn machinery_error(&mut self, s: String) {
        if self.machinery_errors.len() < 8 {
            eprintln!("MACHINERY-ERROR {}: {}", self.id, truncate(&s, 700));
        }
        if self.machinery_errors.len() < 40 {
            self.machinery_errors.push(truncate(&s, 700));
        }
    }
    pub fn elapsed(&self) -> f64 {
        self.t0.elapsed().as_secs_f64()
    }

    /// Writes evidence, prints verdict lines, returns the process exit code.
    pub fn finish(mut self) -> i32 {
        // panics that escaped the per-call guards: inside the code under test they are verdicts, inside the
        // harness they are machinery failures
        for m in crate::meter::take_escaped() {
            if m.contains("/ruzstd/src/") || m.contains("/cli/src/") {
                let loc = m.rsplit(" @ ").next().unwrap_or("").to_string();
                self.violation(Violation { identity: format!("panic:{loc}"), what: format!("panic in the code under test: {m}"), replay: serde_json::json!({"escaped_panic": m}) });
            } else {
                self.machinery_error(format!("panic in the harness: {m}"));
            }
        }
        // results of the AddressSanitizer tier, produced by ./check before this engine runs (thorough tier of C03/C04):
        // the same engine, built with -Zsanitizer=address, has explored the quick bounds in a scratch directory
        if let Ok(p) = std::env::var("VERIF_ASAN_RESULT") {
            match std::fs::read_to_string(&p).ok().and_then(|s| serde_json::from_str::<Value>(&s).ok()) {
                Some(v) => {
                    self.set("asan_engine_exit", v["rc"].as_i64().unwrap_or(-1));
                    self.set("asan_wall_s", v["wall_s"].as_f64().unwrap_or(0.0));
                    if let Some(c) = v["coverage"].as_object() {
                        for (k, x) in c {
                            if x.is_number() || x.is_boolean() {
                                self.cov.insert(format!("asan_{k}"), x.clone());
                            }
                        }
                    }
                    if let Some(a) = v["violations"].as_array() {
                        for x in a {
                            let id = x["identity"].as_str().unwrap_or("?");
                            self.violation(Violation { identity: format!("asan-build:{id}"), what: format!("under the AddressSanitizer build of the engine: {}", x["what"].as_str().unwrap_or("")), replay: x.clone() });
                        }
                    }
                    let report = v["report"].as_str().unwrap_or("");
                    if !report.is_empty() {
                        let first = report.lines().find(|l| l.contains("ERROR: AddressSanitizer")).unwrap_or("AddressSanitizer report").trim().to_string();
                        // the address and pc differ from run to run: the identity is the kind of error and the first frame in the code under test
                        let kind = first.split("AddressSanitizer:").nth(1).map(|t| t.trim().split(' ').next().unwrap_or("").to_string()).unwrap_or_default();
                        let frame = report.lines().find(|l| l.contains("/ruzstd/src/")).map(|l| l.rsplit('/').next().unwrap_or("").trim().to_string()).unwrap_or_default();
                        self.violation(Violation { identity: format!("asan:{kind}:{frame}"), what: format!("AddressSanitizer reports an invalid memory access in the explored code: {}", truncate(report, 1500)), replay: json!({"asan": true, "report": truncate(report, 6000)}) });
                    }
                    if v["machinery_error"].is_string() {
                        self.machinery_error(format!("AddressSanitizer tier: {}", v["machinery_error"].as_str().unwrap()));
                    }
                }
                None => self.machinery_error(format!("AddressSanitizer result file {p} is unreadable")),
            }
        }
        let dir = verif_dir();
        let known = load_known(&dir);
        let mut real = 0;
        let mut known_hits = 0;
        let rdir = dir.join("replays").join(self.id);
        for (i, v) in self.violations.iter().enumerate() {
            let open = known.iter().find(|k| k.status == "open" && k.property == self.id && identity_matches(&k.identity, &v.identity));
            if let Some(k) = open {
                println!("KNOWN-FINDING: property={} {} [{}]", self.id, k.what, v.identity);
                known_hits += 1;
                continue;
            }
            let _ = std::fs::create_dir_all(&rdir);
            let path = rdir.join(format!("{}-{}.json", self.tier.name(), i));
            let body = json!({"property": self.id, "identity": v.identity, "what": v.what, "replay": v.replay});
            let _ = std::fs::write(&path, serde_json::to_string_pretty(&body).unwrap());
            println!("VIOLATION property={} replay={}", self.id, path.display());
            println!("  identity: {}", v.identity);
            println!("  what: {}", truncate(&v.what, 600));
            real += 1;
        }
        let wall = self.t0.elapsed().as_secs_f64();
        if !self.cov.contains_key("samples") {
            let s = std::mem::take(&mut self.samples);
            self.cov.insert("samples".into(), Value::Array(s));
        }
        self.cov.insert("known_findings_matched".into(), json!(known_hits));
        if !self.machinery_errors.is_empty() {
            self.cov.insert("machinery_errors".into(), json!(self.machinery_errors));
        }
        let ev = json!({
            "property_id": self.id,
            "tier": self.tier.name(),
            "seed": self.seed,
            "level": self.level,
            "coverage": Value::Object(self.cov.clone()),
            "assumptions": self.assumptions,
            "wall_s": (wall * 1000.0).round() / 1000.0,
            "violations": real,
        });
        let edir = dir.join("evidence");
        let _ = std::fs::create_dir_all(&edir);
        let path = edir.join(format!("{}.json", self.id));
        std::fs::write(&path, serde_json::to_string_pretty(&ev).unwrap() + "\n").expect("write evidence");
        // human-readable summary of counters
        let mut keys: Vec<&String> = self.cov.keys().collect();
        keys.sort();
        for k in keys {
            let v = &self.cov[k];
            if v.is_number() || v.is_boolean() {
                println!("  {k} = {v}");
            }
        }
        println!("{} tier={} wall={:.1}s violations={} known={} evidence={}", self.id, self.tier.name(), wall, real, known_hits, path.display());
        if !self.machinery_errors.is_empty() {
            return 2;
        }
        if real > 0 {
            1
        } else {
            0
        }
    }
}

pub fn truncate(s: &str, n: usize) -> String {
    if s.len() <= n {
        s.to_string()
    } else {
        let mut e = n;
        while !s.is_char_boundary(e) {
            e -= 1;
        }
        format!("{}…", &s[..e])
    }
}

pub struct Known {
    pub status: String,
    pub property: String,
    pub identity: String,
    pub what: String,
}

/// identity patterns: exact match, or prefix match when the pattern ends with '*'
fn identity_matches(pat: &str, id: &str) -> bool {
    if let Some(p) = pat.strip_suffix('*') {
        id.starts_with(p)
    } else {
        pat == id
    }
}

fn load_known(dir: &std::path::Path) -> Vec<Known> {
    let p = dir.join("known_findings.json");
    let Ok(s) = std::fs::read_to_string(&p) else { return vec![] };
    let Ok(v) = serde_json::from_str::<Value>(&s) else {
        eprintln!("known_findings.json does not parse; ignoring it");
        return vec![];
    };
    let mut out = vec![];
    if let Some(a) = v.get("findings").and_then(|x| x.as_array()) {
        for e in a {
            let g = |k: &str| e.get(k).and_then(|x| x.as_str()).unwrap_or("").to_string();
            out.push(Known { status: g("status"), property: g("property"), identity: g("identity"), what: g("what") });
        }
    }
    out
}

pub fn hex(b: &[u8]) -> String {
    let mut s = String::with_capacity(b.len() * 2);
    for x in b {
        s.push_str(&format!("{:02x}", x));
    }
    s
}
pub fn unhex(s: &str) -> Vec<u8> {
    (0..s.len() / 2).map(|i| u8::from_str_radix(&s[2 * i..2 * i + 2], 16).unwrap()).collect()
}
/// hex of short byte strings, length + head for long ones (for samples)
pub fn show(b: &[u8]) -> String {
    if b.len() <= 48 {
        hex(b)
    } else {
        format!("{}..({} bytes)", hex(&b[..32]), b.len())
    }
}
