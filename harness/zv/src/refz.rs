//! libzstd 1.5.7 (through the cached `zstd` crate) as the meaning of "valid Zstandard".
use std::io::Write;

pub fn decode(frame: &[u8]) -> Result<Vec<u8>, String> {
    let mut out = Vec::new();
    zstd::stream::copy_decode(frame, &mut out).map_err(|e| e.to_string())?;
    Ok(out)
}

/// decode with a window limit raised to `window_log_max` (libzstd refuses windows above 2^27 by default)
pub fn decode_big(frame: &[u8], window_log_max: u32) -> Result<Vec<u8>, String> {
    let mut d = zstd::stream::read::Decoder::new(frame).map_err(|e| e.to_string())?;
    d.window_log_max(window_log_max).map_err(|e| e.to_string())?;
    let mut out = Vec::new();
    std::io::copy(&mut d, &mut out).map_err(|e| e.to_string())?;
    Ok(out)
}

pub fn decode_with_dict(frame: &[u8], dict: &[u8]) -> Result<Vec<u8>, String> {
    let mut d = zstd::stream::read::Decoder::with_dictionary(frame, dict).map_err(|e| e.to_string())?;
    let mut out = Vec::new();
    std::io::copy(&mut d, &mut out).map_err(|e| e.to_string())?;
    Ok(out)
}

#[derive(Clone, Debug, Default)]
pub struct CParams {
    pub level: i32,
    pub window_log: Option<u32>,
    pub ldm: bool,
    pub min_match: Option<u32>,
    pub target_cblock: Option<u32>,
    pub checksum: bool,
    pub content_size: bool,
    pub dict_id: bool,
    /// flush every n bytes of input (0 = never)
    pub flush_every: usize,
    pub strategy: Option<u32>,
}

pub fn compress(data: &[u8], p: &CParams, dict: Option<&[u8]>) -> Result<Vec<u8>, String> {
    use zstd::zstd_safe::CParameter as C;
    let mut e = match dict {
        Some(d) => zstd::stream::write::Encoder::with_dictionary(Vec::new(), p.level, d),
        None => zstd::stream::write::Encoder::new(Vec::new(), p.level),
    }
    .map_err(|e| e.to_string())?;
    let m = |e: std::io::Error| e.to_string();
    if let Some(w) = p.window_log {
        e.set_parameter(C::WindowLog(w)).map_err(m)?;
    }
    if p.ldm {
        e.set_parameter(C::EnableLongDistanceMatching(true)).map_err(m)?;
    }
    if let Some(x) = p.min_match {
        e.set_parameter(C::MinMatch(x)).map_err(m)?;
    }
    if let Some(x) = p.target_cblock {
        e.set_parameter(C::TargetCBlockSize(x)).map_err(m)?;
    }
    if let Some(s) = p.strategy {
        use zstd::zstd_safe::Strategy as S;
        let st = match s {
            1 => S::ZSTD_fast,
            2 => S::ZSTD_dfast,
            3 => S::ZSTD_greedy,
            4 => S::ZSTD_lazy,
            5 => S::ZSTD_lazy2,
            6 => S::ZSTD_btlazy2,
            7 => S::ZSTD_btopt,
            8 => S::ZSTD_btultra,
            _ => S::ZSTD_btultra2,
        };
        e.set_parameter(C::Strategy(st)).map_err(m)?;
    }
    e.set_parameter(C::ChecksumFlag(p.checksum)).map_err(m)?;
    e.set_parameter(C::ContentSizeFlag(p.content_size)).map_err(m)?;
    e.set_parameter(C::DictIdFlag(p.dict_id)).map_err(m)?;
    if p.content_size {
        e.set_pledged_src_size(Some(data.len() as u64)).map_err(m)?;
    }
    if p.flush_every == 0 {
        e.write_all(data).map_err(m)?;
    } else {
        for ch in data.chunks(p.flush_every) {
            e.write_all(ch).map_err(m)?;
            e.flush().map_err(m)?;
        }
    }
    e.finish().map_err(m)
}

pub fn train_dict(samples: &[Vec<u8>], max_size: usize) -> Result<Vec<u8>, String> {
    zstd::dict::from_samples(samples, max_size).map_err(|e| e.to_string())
}
