//! zv — bounded exhaustive checks of the 20 properties of KillingSpark/zstd-rs (see /verif/DESIGN.md).
mod c01;
mod c02;
mod c03;
mod c04;
mod c05;
mod c06;
mod c07;
mod c08;
mod c09;
mod c10;
mod c11;
mod c12;
mod c13;
mod c14;
mod c15;
mod c16;
mod c17;
mod c18;
mod c19;
mod c20;
mod cmp;
mod ev;
mod fe;
mod gen;
mod meter;
mod pool;
mod refz;
mod seeds;
mod selftest;
mod xplore;

#[global_allocator]
static ALLOC: meter::Meter = meter::Meter;

fn main() {
    meter::install_panic_hook();
    // glibc: keep freed memory in the arenas (the explorers allocate and free millions of small objects from
    // 16 threads; trimming and re-growing the heaps serialises them in the kernel)
    unsafe {
        libc::mallopt(libc::M_TRIM_THRESHOLD, 1 << 30);
        libc::mallopt(libc::M_TOP_PAD, 16 << 20);
        libc::mallopt(libc::M_MMAP_THRESHOLD, 32 << 20);
    }
    let args: Vec<String> = std::env::args().collect();
    if args.len() < 2 {
        eprintln!("usage: zv <property-id> [--tier quick|thorough] [--replay <file>]");
        std::process::exit(2);
    }
    let id = args[1].to_uppercase();
    let mut tier = match std::env::var("VERIF_TIER").as_deref() {
        Ok("thorough") => ev::Tier::Thorough,
        _ => ev::Tier::Quick,
    };
    let mut replay = None;
    let mut wa: Option<pool::WorkerArgs> = None;
    let mut i = 2;
    while i < args.len() {
        match args[i].as_str() {
            "--tier" => {
                i += 1;
                tier = if args[i] == "thorough" { ev::Tier::Thorough } else { ev::Tier::Quick };
            }
            "--replay" => {
                i += 1;
                let s = std::fs::read_to_string(&args[i]).expect("replay file");
                replay = Some(serde_json::from_str::<serde_json::Value>(&s).expect("replay json"));
                // a case that does not return is replayed by running the check again (the watchdog reports it)
                if replay.as_ref().map_or(false, |r| r["replay"]["hang"] == true) {
                    replay = None;
                }
            }
            "--worker" => {
                i += 1;
                let (a, b) = args[i].split_once('/').expect("shard/nshards");
                let w = wa.get_or_insert_with(Default::default);
                w.shard = a.parse().unwrap();
                w.nshards = b.parse().unwrap();
            }
            "--progress" => {
                i += 1;
                wa.get_or_insert_with(Default::default).progress = args[i].clone();
            }
            "--resume-after" => {
                i += 1;
                wa.get_or_insert_with(Default::default).resume_after = Some(args[i].parse().unwrap());
            }
            "--only" => {
                i += 1;
                wa.get_or_insert_with(Default::default).only = Some(args[i].parse().unwrap());
            }
            x => {
                eprintln!("unknown argument {x}");
                std::process::exit(2);
            }
        }
        i += 1;
    }
    let code = match id.as_str() {
        "C01" => c01::main(tier, replay),
        "C02" => c02::main(tier, replay),
        "C03" => c03::main(tier, replay, wa),
        "C04" => c04::main(tier, replay),
        "C05" => c05::main(tier, replay, wa),
        "C06" => c06::main(tier, replay),
        "C07" => c07::main(tier, replay),
        "C08" => c08::main(tier, replay),
        "C09" => c09::main(tier, replay),
        "C10" => c10::main(tier, replay),
        "C11" => c11::main(tier, replay),
        "C12" => c12::main(tier, replay),
        "C13" => c13::main(tier, replay),
        "C14" => c14::main(tier, replay),
        "C15" => c15::main(tier, replay),
        "C16" => c16::main(tier, replay),
        "C17" => c17::main(tier, replay),
        "C18" => c18::main(tier, replay),
        "C19" => c19::main(tier, replay),
        "C20" => c20::main(tier, replay, wa),
        "SELFTEST" => selftest::main(),
        "DBGLATTICE" => { selftest::dbg_lattice(); 0 }
        "DBGHUFF" => { selftest::dbg_huff(); 0 }
        _ => {
            eprintln!("no check for {id}");
            2
        }
    };
    std::process::exit(code);
}
