//! C05 — decoder memory is bounded by the window plus what was asked for plus one block, for any input.
//! Product of amplification archetypes x windows x placements x drivers; invariant checked after every call.
use crate::ev::{show, Run, Tier, Violation};
use crate::meter;
use crate::pool::{self, WorkerArgs};
use ruzstd::decoding::{BlockDecodingStrategy as S, FrameDecoder, StreamingDecoder};
use serde_json::{json, Value};
use std::io::Read;
use zmodel::frame::*;
use zmodel::tables::MAX_BLOCK;

#[derive(Clone, Debug)]
pub struct Case {
    pub name: String,
    pub frame: Vec<u8>,
    pub window: usize,
    /// Some(plaintext) if every block regenerates at most 128 KiB (the frame is valid), None if it must be refused
    pub valid: Option<Vec<u8>>,
    pub driver: usize,
}

pub const DRIVERS: [&str; 9] = ["decode_blocks(All)", "decode_blocks(UptoBlocks(1))", "decode_blocks(UptoBytes(1))", "decode_blocks(UptoBytes(1 MiB))", "StreamingDecoder read 1", "StreamingDecoder read 4096", "StreamingDecoder read 1 MiB", "decode_all (exact target)", "decode_from_to"];

fn archetypes(tier: Tier) -> Vec<(String, Block, bool)> {
    let mut v: Vec<(String, Block, bool)> = vec![];
    let all_rle = |n: usize, ml: u32| Block::Compressed { lits: Lits::Raw(vec![], 0), count_form: if n < 128 { 1 } else if n < 0x7F00 { 2 } else { 3 }, modes: [Mode::Rle(0), Mode::Rle(0), Mode::Rle(zmodel::tables::code_of(&zmodel::tables::ML_BASE, ml).unwrap().0)], seqs: vec![Seq { ll: 0, ml, of: 1 }; n], pick: 0 };
    let ns: Vec<usize> = tier.pick(vec![1, 2, 3, 10, 127, 128, 1000, 32511, 32512, 33000], vec![1, 2, 3, 10, 100, 127, 128, 1000, 32511, 32512, 33000, 65000]);
    for n in ns {
        v.push((format!("{n} sequences of match length 131074 (all-RLE modes)"), all_rle(n, 131074), false));
    }
    // exactly at the limit and one past it, through sequences
    v.push(("2 matches of 65536 = exactly 128 KiB".into(), all_rle(2, 65536), true));
    v.push(("match 65539 + match 65534 = 128 KiB + 1".into(), Block::Compressed { lits: Lits::Raw(vec![], 0), count_form: 1, modes: [Mode::Rle(0), Mode::Rle(0), Mode::Predefined], seqs: vec![Seq { ll: 0, ml: 65539, of: 1 }, Seq { ll: 0, ml: 65534, of: 1 }], pick: 0 }, false));
    v.push(("1 literal + match 131072 = 128 KiB + 1".into(), Block::Compressed { lits: Lits::Raw(vec![9], 0), count_form: 1, modes: pre(), seqs: vec![Seq { ll: 1, ml: 131072, of: 3 + 1 }], pick: 0 }, false));
    // literals alone
    for (n, ok) in [(131072u32, true), (131073, false), (262144, false), ((1 << 20) - 1, false)] {
        v.push((format!("RLE literals, regenerated size {n}, no sequences"), Block::Compressed { lits: Lits::Rle(0x33, n, 3), count_form: 1, modes: pre(), seqs: vec![], pick: 0 }, ok));
    }
    v.push(("RLE literals 131072 + one match of 3".into(), Block::Compressed { lits: Lits::Rle(0x33, 131072, 3), count_form: 1, modes: pre(), seqs: vec![Seq { ll: 2, ml: 3, of: 3 + 1 }], pick: 0 }, false));
    // the block header itself: RLE blocks (one stored byte) and raw blocks whose Block_Size field exceeds 128 KiB
    for n in [131073u32, 172032, (1 << 21) - 1] {
        v.push((format!("RLE block with Block_Size {n}"), Block::Hostile(1, n, vec![0x5A]), false));
        v.push((format!("raw block with Block_Size {n} (content present)"), Block::Hostile(0, n, vec![0x11; n as usize]), false));
    }
    v.push(("RLE block of exactly 128 KiB".into(), Block::Rle(0x5A, 131072), true));
    // Huffman literals with 1-bit codes and an 18-bit regenerated size
    for (n, ok) in [(131072usize, true), (131073, false), (262143, false)] {
        let lits: Vec<u8> = (0..n).map(|i| (i % 2) as u8).collect();
        v.push((format!("Huffman literals with 1-bit codes, regenerated size {n}"), Block::Compressed { lits: Lits::Huff { lits, weights: vec![1, 1], desc: WDesc::Direct, streams: 4, size_format: 3 }, count_form: 1, modes: pre(), seqs: vec![], pick: 0 }, ok));
    }
    v
}

pub fn cases(tier: Tier) -> Vec<Case> {
    let mut out = vec![];
    let windows: Vec<(u8, usize)> = vec![(0, 1024), (3 << 3, 8192), (10 << 3, 1 << 20)];
    for (name, block, ok) in archetypes(tier) {
        for &(wd, w) in &windows {
            for placement in 0..3 {
                let mut blocks = vec![];
                match placement {
                    0 => blocks.push(Block::Raw(b"a".to_vec())), // one byte of history so that offset 1 exists
                    1 => blocks.push(Block::Raw((0..200u32).map(|i| i as u8).collect())),
                    _ => {
                        // two windows of output first
                        let mut left = 2 * w + 7;
                        let mut b = 1u8;
                        while left > 0 {
                            let n = left.min(MAX_BLOCK);
                            blocks.push(Block::Rle(b, n as u32));
                            b = b.wrapping_add(1);
                            left -= n;
                        }
                    }
                }
                blocks.push(block.clone());
                blocks.push(Block::Raw(b"tail".to_vec()));
                let spec = FrameSpec { header: Header::window(wd, placement == 1), blocks };
                // the spec encoder does not limit the regenerated size; the checksum of an over-long frame is irrelevant
                let mut st = EncState::default();
                let Ok(body) = encode_blocks(&spec.blocks, &mut st) else { continue };
                let mut frame = encode_header(&spec.header).unwrap();
                frame.extend(body);
                let valid = if ok { execute(&spec.blocks, None).ok() } else { None };
                if ok && valid.is_none() {
                    continue;
                }
                if spec.header.checksum {
                    let ck = valid.as_ref().map(|p| zmodel::xxh::checksum32(p)).unwrap_or(0);
                    frame.extend(ck.to_le_bytes());
                }
                for driver in 0..DRIVERS.len() {
                    out.push(Case { name: format!("{name}; window {w}; placement {placement}"), frame: frame.clone(), window: w, valid: valid.clone(), driver });
                }
            }
        }
    }
    // non-hostile controls
    for ck in [false, true] {
        let s = crate::seeds::windowed(ck, 6);
        for driver in 0..DRIVERS.len() {
            out.push(Case { name: format!("control: {}", s.name), frame: s.frame.clone(), window: 1024, valid: Some(s.plain.clone()), driver });
        }
    }
    out
}

struct Probe {
    held_before: usize,
    blocks_before: usize,
}
fn held(d: &FrameDecoder) -> usize {
    match d.verif_ring_state() {
        Some((cap, head, tail)) if cap > 0 => (tail + cap - head) % cap,
        _ => 0,
    }
}

/// run one case; Err((identity, what)) on a violated bound
pub fn run_case(c: &Case) -> Result<(), (String, String)> {
    let w = c.window;
    let mut delivered: Vec<u8> = vec![];
    let mut worst_growth = 0usize;
    let bound_viol = |what: String| Err(("bound:".to_string() + DRIVERS[c.driver], what));
    let mut check = |d: &FrameDecoder, p: &Probe, budget: Option<usize>, peak: usize, call: &str| -> Result<(), (String, String)> {
        let h = held(d);
        let growth = h.saturating_sub(p.held_before);
        let blocks = d.blocks_decoded() - p.blocks_before;
        worst_growth = worst_growth.max(growth);
        if growth > blocks * MAX_BLOCK {
            return Err(("bound:".to_string() + DRIVERS[c.driver], format!("[{}] {call} decoded {blocks} block(s) and added {growth} bytes to the buffer (limit 128 KiB per block); {} bytes held for a {}-byte window; frame is {} bytes", c.name, h, w, c.frame.len())));
        }
        if let Some(n) = budget {
            if growth > n.saturating_sub(1) + MAX_BLOCK && blocks > 0 {
                return Err(("bound:".to_string() + DRIVERS[c.driver], format!("[{}] {call} with a byte budget of {n} added {growth} bytes (limit budget - 1 + 128 KiB)", c.name)));
            }
        }
        let allowed = 3 * (w + h.max(p.held_before) + MAX_BLOCK) + (4 << 20);
        if peak > allowed {
            return Err(("heap:".to_string() + DRIVERS[c.driver], format!("[{}] {call}: peak heap {peak} bytes while {} bytes are held for a {w}-byte window (allowed {allowed})", c.name, h)));
        }
        Ok(())
    };
    let mut dec = FrameDecoder::new();
    let mut failed = false;
    match c.driver {
        0..=3 => {
            let mut src = c.frame.as_slice();
            if let Err(e) = dec.reset(&mut src) {
                return bound_viol(format!("[{}] reset failed on a frame with a legal header: {e:?}", c.name));
            }
            loop {
                let (strat, budget) = match c.driver {
                    0 => (S::All, None),
                    1 => (S::UptoBlocks(1), None),
                    2 => (S::UptoBytes(1), Some(1)),
                    _ => (S::UptoBytes(1 << 20), Some(1 << 20)),
                };
                let p = Probe { held_before: held(&dec), blocks_before: dec.blocks_decoded() };
                let m = meter::begin();
                let r = dec.decode_blocks(&mut src, strat);
                check(&dec, &p, budget, m.peak(), DRIVERS[c.driver])?;
                if let Some(v) = dec.collect() {
                    delivered.extend(v);
                }
                if r.is_err() {
                    failed = true;
                    break;
                }
                if dec.is_finished() {
                    break;
                }
            }
        }
        4..=6 => {
            let chunk = [1usize, 4096, 1 << 20][c.driver - 4];
            let mut sd = match StreamingDecoder::new_with_decoder(c.frame.as_slice(), &mut dec) {
                Ok(s) => s,
                Err(e) => return bound_viol(format!("[{}] init failed: {e:?}", c.name)),
            };
            let mut b = vec![0u8; chunk];
            loop {
                let p = Probe { held_before: held(&*sd.decoder), blocks_before: sd.decoder.blocks_decoded() };
                let m = meter::begin();
                let r = sd.read(&mut b);
                // the read also drains up to `chunk` bytes, so growth is measured net of that; the per-block
                // bound still applies to what is held afterwards
                // the reader decodes until `chunk` bytes are collectable above the retained window, so the bound
                // is on what is held: window + requested + one block
                check(&*sd.decoder, &p, None, m.peak(), DRIVERS[c.driver])?;
                let h = held(&*sd.decoder);
                if h > w + chunk + MAX_BLOCK {
                    return Err(("bound:".to_string() + DRIVERS[c.driver], format!("[{}] after a read of {chunk} bytes the decoder holds {h} bytes (limit window {w} + {chunk} + 128 KiB)", c.name)));
                }
                match r {
                    Ok(0) => break,
                    Ok(n) => delivered.extend_from_slice(&b[..n]),
                    Err(_) => {
                        failed = true;
                        break;
                    }
                }
            }
        }
        7 => {
            let n = c.valid.as_ref().map(|p| p.len()).unwrap_or(1 << 20);
            let mut out = vec![0u8; n];
            let p = Probe { held_before: 0, blocks_before: 0 };
            let m = meter::begin();
            let r = dec.decode_all(&c.frame, &mut out);
            // decode_all works in rounds of UptoBytes(1 MiB) and drains after each round
            let h = held(&dec);
            if h > w + (1 << 20) + MAX_BLOCK {
                return bound_viol(format!("[{}] decode_all left {h} bytes buffered for a {w}-byte window", c.name));
            }
            if m.peak() > 3 * (w + (1 << 20) + MAX_BLOCK) + (4 << 20) + n {
                return Err(("heap:decode_all".into(), format!("[{}] decode_all: peak heap {} bytes for a {w}-byte window and a {n}-byte target", c.name, m.peak())));
            }
            let _ = p;
            match r {
                Ok(k) => delivered.extend_from_slice(&out[..k]),
                Err(_) => failed = true,
            }
        }
        _ => {
            let mut pos = 0;
            let mut tgt = vec![0u8; 4096];
            loop {
                let p = Probe { held_before: held(&dec), blocks_before: dec.blocks_decoded() };
                let m = meter::begin();
                let r = dec.decode_from_to(&c.frame[pos..], &mut tgt);
                check(&dec, &p, None, m.peak(), DRIVERS[c.driver])?;
                match r {
                    Err(_) => {
                        failed = true;
                        break;
                    }
                    Ok((rd, wr)) => {
                        pos = (pos + rd).min(c.frame.len());
                        delivered.extend_from_slice(&tgt[..wr]);
                        if rd == 0 && wr == 0 {
                            break;
                        }
                    }
                }
            }
        }
    }
    match &c.valid {
        None => {
            if !failed {
                return Err(("accepted:".to_string() + DRIVERS[c.driver], format!("[{}] a block regenerating more than 128 KiB was accepted ({} bytes delivered) instead of being rejected as corrupt", c.name, delivered.len())));
            }
        }
        Some(p) => {
            if failed || delivered != *p {
                return Err(("refused:".to_string() + DRIVERS[c.driver], format!("[{}] a valid frame whose largest block regenerates exactly 128 KiB: failed={failed}, {} of {} bytes delivered", c.name, delivered.len(), p.len())));
            }
        }
    }
    Ok(())
}

fn worker(tier: Tier, wa: &WorkerArgs) -> i32 {
    pool::worker_init(6 << 30, 20);
    let cs = cases(tier);
    let prog = pool::Progress::open(&wa.progress);
    let mut viol = vec![];
    let mut evals = 0u64;
    let mut hostile = 0u64;
    for (i, c) in cs.iter().enumerate() {
        let idx = i as u64;
        if let Some(o) = wa.only {
            if o != idx {
                continue;
            }
        } else if i % wa.nshards != wa.shard || wa.resume_after.map(|r| idx <= r).unwrap_or(false) {
            continue;
        }
        prog.begin_case(idx);
        prog.completed(evals);
        evals += 1;
        if c.valid.is_none() {
            hostile += 1;
        }
        let r = match meter::guarded(|| run_case(c)) {
            Ok(r) => r,
            Err(p) => Err((format!("panic:{}", p.rsplit(" @ ").next().unwrap_or("")), format!("[{}] {} panicked: {p}", c.name, DRIVERS[c.driver]))),
        };
        if let Err((identity, what)) = r {
            if viol.len() < 12 && !viol.iter().any(|v: &Violation| v.identity == identity) {
                viol.push(Violation { identity, what, replay: json!({"case_index": idx, "case": c.name, "driver": DRIVERS[c.driver], "frame": show(&c.frame)}) });
            }
        }
    }
    prog.idle();
    println!("{}", pool::worker_json(evals, hostile, &viol, json!({})));
    0
}

pub fn main(tier: Tier, replay: Option<Value>, wa: Option<WorkerArgs>) -> i32 {
    if let Some(w) = wa {
        return worker(tier, &w);
    }
    if let Some(r) = replay {
        let idx = r["replay"]["case_index"].as_u64().unwrap_or(u64::MAX);
        let a = pool::run_single("C05", tier.name(), idx, &[]);
        let b = pool::run_single("C05", tier.name(), idx, &[]);
        println!("replay of case {idx}: {a}\n{b}");
        return if a != b { 2 } else if !a.starts_with("completed") || a.contains("\"violations\":[{") { println!("VIOLATION property=C05 replay=(given file)"); 1 } else { 0 };
    }
    let mut run = Run::new("C05", "exploration", tier);
    let cs = cases(tier);
    println!("C05: {} cases ({} archetypes x 3 windows x 3 placements x {} drivers + controls)", cs.len(), archetypes(tier).len(), DRIVERS.len());
    let results = pool::run_workers("C05", tier.name(), meter::threads().min(8), &[], 8);
    let mut evals = 0;
    let mut hostile = 0;
    for r in results {
        evals += r.partial_evals;
        if let Some(o) = r.output {
            evals += o["evals"].as_u64().unwrap_or(0);
            hostile += o["nontrivial"].as_u64().unwrap_or(0);
            for v in o["violations"].as_array().cloned().unwrap_or_default() {
                run.violation(Violation { identity: v["identity"].as_str().unwrap_or("").to_string(), what: v["what"].as_str().unwrap_or("").to_string(), replay: v["replay"].clone() });
            }
        }
        if let Some((idx, how)) = r.died {
            if idx == u64::MAX {
                run.machinery_error(format!("worker {}: {how}", r.shard));
                continue;
            }
            let c = &cs[idx as usize];
            let c1 = pool::run_single("C05", tier.name(), idx, &[]);
            if c1.starts_with("completed") {
                run.machinery_error(format!("worker died at case {idx} ({how}) but the case completes alone"));
            } else {
                run.violation(Violation { identity: format!("bound:{}", DRIVERS[c.driver]), what: format!("[{}] {}: the process died ({how}; alone: {c1}) on a {}-byte frame: memory or time not bounded", c.name, DRIVERS[c.driver], c.frame.len()), replay: json!({"case_index": idx, "case": c.name, "frame": show(&c.frame)}) });
            }
        }
    }
    run.set("evaluations", evals);
    run.set("distinct_nontrivial", hostile);
    run.set("cases_planned", cs.len() as u64);
    run.set("exhaustive", true);
    run.set("rule", "full product of amplification archetypes (n maximum-length matches through all-RLE tables, literals sections declaring 128 KiB / 128 KiB+1 / 256 KiB / 1 MiB through RLE and 1-bit Huffman codes, exact-limit and limit+1 blocks) x windows {1 KiB, 8 KiB, 1 MiB} x placement {first, after a raw block, after two windows of output} x 9 drivers; after every call: bytes added <= 128 KiB per block decoded and <= budget-1+128 KiB under a byte budget; peak heap of the call <= 3*(window + held + 128 KiB) + 4 MiB; a block regenerating more than 128 KiB must be an error, one regenerating exactly 128 KiB must decode. non-trivial = hostile (over-limit) cases");
    run.sample(json!({"case": cs[0].name, "driver": DRIVERS[cs[0].driver], "frame": show(&cs[0].frame)}));
    run.assume("heap constants (3x, +4 MiB) are generous engineering bounds; the byte-count bound is exact");
    run.finish()
}
