//! C08 — content checksums are computed over exactly the delivered bytes. Rides on C06's state space (the
//! running hash value is part of the state key and is compared with an independent XXH64 at every terminal
//! state); adds the drain-path x ring-layout coverage matrix and the compressor's trailers.
use crate::c06::{self, DRAIN_MATRIX, DRAIN_PATHS};
use crate::ev::{hex, Run, Tier, Violation};
use crate::meter::guarded;
use ruzstd::encoding::{CompressionLevel, FrameCompressor};
use serde_json::{json, Value};
use std::sync::atomic::Ordering;

fn xxh_cross_check(run: &mut Run) {
    // zmodel's XXH64 against twox-hash on a spread of lengths (the third implementation, libzstd, accepts
    // every checksummed frame the model emits)
    use std::hash::Hasher;
    for n in [0usize, 1, 3, 4, 7, 8, 31, 32, 33, 63, 64, 65, 1000, 131072, 131073] {
        let d: Vec<u8> = (0..n).map(|i| (i * 31 + 7) as u8).collect();
        let mut h = twox_hash::XxHash64::with_seed(0);
        h.write(&d);
        if h.finish() != zmodel::xxh::xxh64(&d) {
            run.machinery_error(format!("zmodel XXH64 disagrees with twox-hash on {n} bytes"));
        }
    }
}

fn inputs() -> Vec<Vec<u8>> {
    let mut v = vec![vec![], vec![1], b"hello world hello world hello world".to_vec(), vec![7u8; 131072], vec![7u8; 131073]];
    v.push((0..131072u32 * 2).map(|i| (i % 251) as u8).collect());
    v.push((0..300_000u32).map(|i| (i.wrapping_mul(2654435761) >> 24) as u8).collect());
    v.push((0..5000u32).map(|i| (i % 7) as u8).collect());
    v
}

/// every frame the compressor writes ends with XXH64(input) & 0xFFFFFFFF and has the flag set, also when reused
fn compressor(run: &mut Run, tier: Tier) {
    let ins = inputs();
    let mut evals = 0u64;
    let max_len = tier.pick(2usize, 3);
    // all histories of up to max_len frames over the inputs through one reused compressor, both levels
    let mut hist: Vec<Vec<usize>> = vec![];
    for a in 0..ins.len() {
        hist.push(vec![a]);
        for b in 0..ins.len() {
            hist.push(vec![a, b]);
            if max_len >= 3 && a < 4 && b < 4 {
                for c in 0..ins.len() {
                    hist.push(vec![a, b, c]);
                }
            }
        }
    }
    for level in [CompressionLevel::Uncompressed, CompressionLevel::Fastest] {
        let results = crate::meter::par_map(hist.len(), crate::meter::threads(), |hi| {
            let h = &hist[hi];
            let r = guarded(|| {
                let mut c: FrameCompressor<&[u8], Vec<u8>, _> = FrameCompressor::new(level);
                let mut bad = None;
                for (k, &i) in h.iter().enumerate() {
                    c.set_source(ins[i].as_slice());
                    c.set_drain(Vec::new());
                    c.compress();
                    let out = c.take_drain().unwrap();
                    let want = zmodel::xxh::checksum32(&ins[i]);
                    let flag = out.len() > 4 && out[4] & 4 != 0;
                    let tail = if out.len() >= 4 { u32::from_le_bytes(out[out.len() - 4..].try_into().unwrap()) } else { 0 };
                    if !flag || tail != want {
                        bad = Some(format!("frame {k} of history {:?} ({:?}): checksum flag {flag}, trailer {tail:#x}, XXH64 low 32 of the {}-byte input {want:#x}", h, level, ins[i].len()));
                        break;
                    }
                }
                bad
            });
            (h.len() as u64, r)
        });
        for (n, r) in results {
            evals += n;
            match r {
                Ok(None) => {}
                Ok(Some(m)) => run.violation(Violation { identity: format!("compressor:trailer:{:?}", level), what: m, replay: json!({"case": "compressor"}) }),
                Err(p) => run.violation(Violation { identity: format!("compressor:panic:{}", p.rsplit(" @ ").next().unwrap_or("")), what: format!("compressor panicked: {p}"), replay: json!({"case": "compressor"}) }),
            }
        }
    }
    run.set("compressor_frames_checked", evals);
    run.set("compressor_reuse_history_length", max_len as u64);
}

pub fn main(tier: Tier, replay: Option<Value>) -> i32 {
    if let Some(r) = replay {
        return c06::do_replay(tier, &r["replay"], "C08");
    }
    let mut run = Run::new("C08", "model_checking", tier);
    xxh_cross_check(&mut run);
    let tot = c06::explore(&mut run, tier, "C08");
    let mut matrix = serde_json::Map::new();
    let mut empty = vec![];
    for (i, name) in DRAIN_PATHS.iter().enumerate() {
        let c = [DRAIN_MATRIX[i][0].load(Ordering::Relaxed), DRAIN_MATRIX[i][1].load(Ordering::Relaxed)];
        matrix.insert(name.to_string(), json!({"ring contiguous": c[0], "ring wrapped": c[1]}));
        for (j, l) in ["contiguous", "wrapped"].iter().enumerate() {
            if c[j] == 0 {
                empty.push(format!("{name} / ring {l}"));
            }
        }
    }
    run.set("drain_path_x_ring_layout", serde_json::Value::Object(matrix));
    run.set("drain_matrix_empty_cells", json!(empty));
    if !empty.is_empty() {
        println!("C08: drain matrix cells not exercised: {:?}", empty);
    }
    compressor(&mut run, tier);
    run.set("states", tot.states);
    run.set("transitions", tot.transitions);
    run.set("terminal_states_checked", tot.terminal);
    run.set("traces_validated_against_impl", tot.terminal);
    run.set("exhaustive", tot.exhausted);
    run.set("rule", "C06's exploration with the decoder's running hash value in the state key: at every terminal state (frame finished, everything taken) the calculated checksum must equal the low 32 bits of an independent XXH64 of the bytes actually delivered, and the stored checksum where the frame has one; coverage matrix of drain path x ring layout; every frame of every reuse history of the compressor must end with the checksum of its input and carry the flag");
    run.sample(json!({"terminal_check": "get_calculated_checksum() == XXH64(delivered) & 0xFFFFFFFF == get_checksum_from_data()", "frames": c06::frames(tier).iter().map(|s| s.name.clone()).collect::<Vec<_>>()}));
    run.assume("XXH64 in zmodel is cross-checked against twox-hash on every run and against libzstd through every checksummed model frame");
    let _ = hex(&[]);
    run.finish()
}
