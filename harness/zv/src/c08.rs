//! C08 — content checksums are computed over exactly the delivered bytes. Rides on C06's state space (the
//! running hash value is part of the state key and is compared with an independent XXH64 at every terminal
//! state); adds the drain-path x ring-layout coverage matrix and the compressor's trailers.
use crate::c06::{self, DRAIN_MATRIX, DRAIN_PATHS};
use crate::ev::{hex, Run, Tier, Violation};
use crate::meter::guarded;
use ruzstd::encoding::{CompressionLevel, FrameCompressor};
use serde_json::{json, Value};
use std::sync::atomic::Ordering;

fn xxh_cross_check(run: &mut Run) {
    // zmodel's XXH64 against twox-hash on a spread of lengths (the third implementation, libzstd, accepts
    // every checksummed frame the model emits)
    use std::hash::Hasher;
    for n in [0usize, 1, 3, 4, 7, 8, 31, 32, 33, 63, 64, 65, 1000, 131072, 131073] {
        let d: Vec<u8> = (0..n).map(|i| (i * 31 + 7) as u8).collect();
        let mut h = twox_hash::XxHash64::with_seed(0);
        h.write(&d);
        if h.finish() != zmodel::xxh::xxh64(&d) {
            run.machinery_error(format!("zmodel XXH64 disagrees with twox-hash on {n} bytes"));
        }
    }
}

fn inputs() -> Vec<Vec<u8>> {
    let mut v = vec![vec![], vec![1], b"hello world hello world hello world".to_vec(), vec![7u8; 131072], vec![7u8; 131073]];
    v.push((0..131072u32 * 2).map(|i| (i % 251) as u8).collect());
    v.push((0..300_000u32).map(|i| (i.wrapping_mul(2654435761) >> 24) as u8).collect());
    v.push((0..5000u32).map(|i| (i % 7) as u8).collect());
    v
}

/// every frame the compressor writes ends with XXH64(input) & 0xFFFFFFFF and has the flag set, also when reused
fn compressor(run: &mut Run, tier: Tier) {
    let ins = inputs();
    let mut evals = 0u64;
    let max_len = tier.pick(2usize, 3);
    // all histories of up to max_len frames over the inputs through one reused compressor, both levels
    let mut hist: Vec<Vec<usize>> = vec![];
    for a in 0..ins.len() {
        hist.push(vec![a]);
        for b in 0..ins.len() {
            hist.push(vec![a, b]);
            if max_len >= 3 && a < 4 && b < 4 {
                for c in 0..ins.len() {
                    hist.push(vec![a, b, c]);
                }
            }
        }
    }
    for level in [CompressionLevel::Uncompressed, CompressionLevel::Fastest] {
        let results = crate::meter::par_map(hist.len(), crate::meter::threads(), |hi| {
            let h = &hist[hi];
            let r = guarded(|| {
                let mut c: FrameCompressor<&[u8], Vec<u8>, _> = FrameCompressor::new(level);
                let mut bad = None;
                for (k, &i) in h.iter().enumerate() {
                    c.set_source(ins[i].as_slice());
                    c.set_drain(Vec::new());
                    c.compress();
                    let out = c.take_drain().unwrap();
                    let want = zmodel::xxh::checksum32(&ins[i]);
                    let flag = out.len() > 4 && out[4] & 4 != 0;
                    let tail = if out.len() >= 4 { u32::from_le_bytes(out[out.len() - 4..].try_into().unwrap()) } else { 0 };
                    if !flag || tail != want {
                        bad = Some(format!("frame {k} of history {:?} ({:?}): checksum flag {flag}, trailer {tail:#x}, XXH64 low 32 of the {}-byte input {want:#x}", h, level, ins[i].len()));
                        break;
                    }
                }
                bad
            });
            (h.len() as u64, r)
        });
        for (n, r) in results {
            evals += n;
            match r {
                Ok(None) => {}
                Ok(Some(m)) => run.violation(Violation { identity: format!("compressor:trailer:{:?}", level), what: m, replay: json!({"case": "compressor"}) }),
                Err(p) => run.violation(Violation { identity: format!("compressor:panic:{}", p.rsplit(" @ ").next().unwrap_or("")), what: format!("compressor panicked: {p}"), replay: json!({"case": "compressor"}) }),
            }
        }
    }
    run.set("compressor_frames_checked", evals);
    run.set("compressor_reuse_history_length", max_len as u64);
}

/// The compressor as an object with operations: every sequence, up to a depth, of {set_source(i), refill the source
/// in place through source_mut(), set_drain(new), compress, set_compression_level, take_drain, take_source} on one
/// FrameCompressor, against a model (source = bytes not yet read, drain = expected concatenation of frames).
/// After every compress() the bytes appended to the drain must be exactly one well-formed frame (strict walker:
/// includes the trailing checksum) that regenerates what the source still held, also for libzstd; the source must
/// be exhausted afterwards; take_* must hand back what the model holds.
/// the source type of the protocol exploration: a slice handed out whole (k = 0) or k bytes per read call
pub struct ChunkSrc<'a> {
    data: &'a [u8],
    k: usize,
}
impl<'a> ChunkSrc<'a> {
    fn len(&self) -> usize {
        self.data.len()
    }
}
impl std::io::Read for ChunkSrc<'_> {
    fn read(&mut self, buf: &mut [u8]) -> std::io::Result<usize> {
        let n = buf.len().min(if self.k == 0 { usize::MAX } else { self.k }).min(self.data.len());
        buf[..n].copy_from_slice(&self.data[..n]);
        self.data = &self.data[n..];
        Ok(n)
    }
}

pub fn compressor_protocol(run: &mut Run, tier: Tier, prop: &str) {
    #[derive(Clone, Copy, Debug, PartialEq)]
    enum P {
        SetSource(usize),
        Refill(usize),
        SetDrain,
        Compress,
        Level(bool),
        TakeDrain,
        TakeSource,
    }
    let mut ins: Vec<Vec<u8>> = vec![vec![], b"x".to_vec(), b"hello world hello world hello world".to_vec(), (0..5000u32).map(|i| (i % 7) as u8).collect()];
    if tier == Tier::Thorough {
        ins.push(vec![7u8; 131073]);
    }
    let mut alphabet: Vec<P> = vec![P::Compress, P::SetDrain, P::TakeDrain, P::TakeSource, P::Level(false), P::Level(true)];
    for i in 0..ins.len() {
        alphabet.push(P::SetSource(i));
        alphabet.push(P::Refill(i));
    }
    let depth = tier.pick(6usize, 7);
    // all sequences of exactly `depth` operations that end in compress (shorter ones are their prefixes: every
    // compress along the way is checked), skipping operations the documentation rules out (compress without a
    // source or a drain, refill without a source)
    fn enumerate(alphabet: &[P], depth: usize, cur: &mut Vec<P>, has_src: bool, has_drain: bool, out: &mut Vec<Vec<P>>) {
        if cur.len() == depth {
            if cur.last() == Some(&P::Compress) {
                out.push(cur.clone());
            }
            return;
        }
        for &op in alphabet {
            let (mut s, mut d) = (has_src, has_drain);
            match op {
                P::Compress if !(has_src && has_drain) => continue,
                P::Refill(_) if !has_src => continue,
                P::SetSource(_) => s = true,
                P::SetDrain => d = true,
                P::TakeDrain => d = false,
                P::TakeSource => s = false,
                _ => {}
            }
            // two level changes in a row, or taking what is not there, add nothing
            if matches!((cur.last(), op), (Some(P::Level(_)), P::Level(_))) || (op == P::TakeDrain && !has_drain) || (op == P::TakeSource && !has_src) {
                continue;
            }
            cur.push(op);
            enumerate(alphabet, depth, cur, s, d, out);
            cur.pop();
        }
    }
    let mut seqs = vec![];
    enumerate(&alphabet, depth, &mut vec![], false, false, &mut seqs);
    // every sequence twice: sources handed out whole, and 3 bytes per read call (a block then arrives in many reads)
    let accs = crate::meter::par_fold(seqs.len() * 2, crate::meter::threads(), crate::c12::Acc::default, |a, si| {
        let seq = &seqs[si / 2];
        let chunk = if si % 2 == 0 { 0usize } else { 3 };
        a.evals += 1;
        let rp = json!({"case": "compressor_protocol", "source_bytes_per_read": chunk, "operations": seq.iter().map(|o| format!("{o:?}")).collect::<Vec<_>>()});
        let r = guarded(|| -> Option<(String, String)> {
            let mut c: FrameCompressor<ChunkSrc, Vec<u8>, _> = FrameCompressor::new(CompressionLevel::Fastest);
            let mut src: Option<&[u8]> = None; // model: bytes the source still holds
            let mut drain: Option<Vec<u8>> = None; // model: what the drain must hold
            let mut level = CompressionLevel::Fastest; // model: the level in force
            let same_level = |a: CompressionLevel, b: CompressionLevel| matches!((a, b), (CompressionLevel::Fastest, CompressionLevel::Fastest) | (CompressionLevel::Uncompressed, CompressionLevel::Uncompressed));
            for (k, op) in seq.iter().enumerate() {
                match *op {
                    P::SetSource(i) => {
                        let old = c.set_source(ChunkSrc { data: ins[i].as_slice(), k: chunk }).map(|o| o.len());
                        if old != src.map(|s| s.len()) {
                            return Some(("set_source:returned".into(), format!("operation {k}: set_source returned a source holding {:?} bytes, expected {:?}", old, src.map(|s| s.len()))));
                        }
                        src = Some(ins[i].as_slice());
                    }
                    P::Refill(i) => {
                        *c.source_mut().unwrap() = ChunkSrc { data: ins[i].as_slice(), k: chunk };
                        src = Some(ins[i].as_slice());
                    }
                    P::SetDrain => {
                        let old = c.set_drain(Vec::new());
                        if old != drain {
                            return Some(("set_drain:returned".into(), format!("operation {k}: set_drain handed back a drain of {:?} bytes, the frames written so far have {:?}", old.map(|o| o.len()), drain.as_ref().map(|d| d.len()))));
                        }
                        drain = Some(vec![]);
                    }
                    P::Level(fast) => {
                        let new = if fast { CompressionLevel::Fastest } else { CompressionLevel::Uncompressed };
                        let old = c.set_compression_level(new);
                        if !same_level(old, level) || !same_level(c.compression_level(), new) {
                            return Some(("set_compression_level".into(), format!("operation {k}: set_compression_level({new:?}) returned {old:?} (the level in force was {level:?}) and compression_level() is now {:?}", c.compression_level())));
                        }
                        level = new;
                    }
                    P::TakeDrain => {
                        if c.take_drain() != drain.take() {
                            return Some(("take_drain".into(), format!("operation {k}: take_drain does not hand back the frames written so far")));
                        }
                    }
                    P::TakeSource => {
                        let got = c.take_source().map(|g| g.data);
                        if got != src.take() {
                            return Some(("take_source".into(), format!("operation {k}: take_source handed back {:?} bytes", got.map(|g| g.len()))));
                        }
                    }
                    P::Compress => {
                        let before = c.drain().unwrap().len();
                        c.compress();
                        let all = c.drain().unwrap();
                        let want = src.unwrap();
                        if all.len() < before || all[..before] != drain.as_ref().unwrap()[..] {
                            return Some(("compress:drain_prefix".into(), format!("operation {k}: compress changed bytes already in the drain")));
                        }
                        let frame = &all[before..];
                        match zmodel::walker::walk(frame, None) {
                            // at the level "Uncompressed" every block is stored raw: that is what the level means
                            Ok(w) if w.consumed == frame.len() && w.plaintext == want && w.header.checksum_flag && (same_level(level, CompressionLevel::Fastest) || w.blocks.iter().all(|b| b.kind == 0)) => {}
                            Ok(w) => return Some(("compress:frame".into(), format!("operation {k}: compress appended {} bytes that read as a frame of {} content bytes (checksum flag {}, {} bytes used); the source held {} bytes", frame.len(), w.plaintext.len(), w.header.checksum_flag, w.consumed, want.len()))),
                            Err(e) => return Some((if e.contains("checksum") { "compress:[C08]checksum".into() } else { format!("compress:invalid:{}", crate::ev::truncate(&e, 30)) }, format!("operation {k}: compress appended {} bytes that are not one well-formed frame of the {} bytes the source held: {e}", frame.len(), want.len()))),
                        }
                        match crate::refz::decode(frame) {
                            Ok(p) if p == want => {}
                            other => return Some(("compress:libzstd".into(), format!("operation {k}: libzstd does not restore the {} source bytes from the appended frame: {:?}", want.len(), other.map(|v| v.len())))),
                        }
                        if c.source().map(|s| s.len()) != Some(0) {
                            return Some(("compress:source_left".into(), format!("operation {k}: after compress the source still holds {:?} bytes", c.source().map(|s| s.len()))));
                        }
                        drain = Some(all.clone());
                        src = Some(&want[want.len()..]);
                    }
                }
            }
            None
        });
        match r {
            Ok(None) => a.nontrivial += 1,
            Ok(Some((id, what))) => a.bad(format!("compressor_protocol:{id}"), format!("FrameCompressor driven by {:?} (source handing out {} per read): {what}", seq, if chunk == 0 { "everything".to_string() } else { format!("{chunk} bytes") }), rp),
            Err(p) => a.bad(format!("compressor_protocol:panic:{}", p.rsplit(" @ ").next().unwrap_or("")), format!("FrameCompressor driven by {:?} (source handing out {} per read) panicked: {p}", seq, if chunk == 0 { "everything".to_string() } else { format!("{chunk} bytes") }), rp),
        }
    });
    crate::c12::merge(run, prop, &format!("compressor_protocol_all_operation_sequences_depth_{depth}"), accs, true);
    run.set("compressor_protocol_depth", depth as u64);
}

pub fn main(tier: Tier, replay: Option<Value>) -> i32 {
    if let Some(r) = replay {
        return c06::do_replay(tier, &r["replay"], "C08");
    }
    let mut run = Run::new("C08", "model_checking", tier);
    xxh_cross_check(&mut run);
    let tot = c06::explore(&mut run, tier, "C08");
    let mut matrix = serde_json::Map::new();
    let mut empty = vec![];
    for (i, name) in DRAIN_PATHS.iter().enumerate() {
        let c = [DRAIN_MATRIX[i][0].load(Ordering::Relaxed), DRAIN_MATRIX[i][1].load(Ordering::Relaxed)];
        matrix.insert(name.to_string(), json!({"ring contiguous": c[0], "ring wrapped": c[1]}));
        for (j, l) in ["contiguous", "wrapped"].iter().enumerate() {
            if c[j] == 0 {
                empty.push(format!("{name} / ring {l}"));
            }
        }
    }
    run.set("drain_path_x_ring_layout", serde_json::Value::Object(matrix));
    run.set("drain_matrix_empty_cells", json!(empty));
    if !empty.is_empty() {
        println!("C08: drain matrix cells not exercised: {:?}", empty);
    }
    compressor(&mut run, tier);
    compressor_protocol(&mut run, tier, "C08");
    run.set("states", tot.states);
    run.set("transitions", tot.transitions);
    run.set("terminal_states_checked", tot.terminal);
    run.set("traces_validated_against_impl", tot.terminal);
    run.set("exhaustive", tot.exhausted);
    run.set("rule", "C06's exploration with the decoder's running hash value in the state key: at every terminal state (frame finished, everything taken) the calculated checksum must equal the low 32 bits of an independent XXH64 of the bytes actually delivered, and the stored checksum where the frame has one; coverage matrix of drain path x ring layout; every frame of every reuse history of the compressor must end with the checksum of its input and carry the flag");
    run.sample(json!({"terminal_check": "get_calculated_checksum() == XXH64(delivered) & 0xFFFFFFFF == get_checksum_from_data()", "frames": c06::frames(tier).iter().map(|s| s.name.clone()).collect::<Vec<_>>()}));
    run.assume("XXH64 in zmodel is cross-checked against twox-hash on every run and against libzstd through every checksummed model frame");
    let _ = hex(&[]);
    run.finish()
}
