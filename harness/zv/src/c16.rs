//! C16 — compression is correct for every well-behaved user-supplied matcher. A scripted Matcher replays a
//! given parse through the public interface; (a) every valid parse of every small input, (b) restricted-move
//! enumeration on blocks large enough to be emitted compressed, (c) parses directed at the encoder's thresholds.
use crate::c12::{merge, Acc};
use crate::cmp;
use crate::ev::{show, Run, Tier};
use crate::meter::{self, guarded};
use ruzstd::encoding::{CompressionLevel, FrameCompressor, Matcher, Sequence};
use serde_json::{json, Value};

/// one sequence of a parse: literal run, then a match (offset, length); the tail of a block is literals
#[derive(Clone, Copy, Debug, PartialEq)]
pub struct PSeq {
    pub ll: usize,
    pub of: usize,
    pub ml: usize,
}
pub type Parse = Vec<PSeq>;

pub struct ScriptMatcher {
    pub block: usize,
    pub window: u64,
    pub parses: Vec<Parse>,
    cur: usize,
    last: Vec<u8>,
    pub calls: Vec<&'static str>,
}
impl ScriptMatcher {
    pub fn new(block: usize, window: u64, parses: Vec<Parse>) -> Self {
        ScriptMatcher { block, window, parses, cur: 0, last: vec![], calls: vec![] }
    }
}
impl Matcher for ScriptMatcher {
    fn get_next_space(&mut self) -> Vec<u8> {
        vec![0; self.block]
    }
    fn get_last_space(&mut self) -> &[u8] {
        &self.last
    }
    fn commit_space(&mut self, space: Vec<u8>) {
        self.last = space;
    }
    fn skip_matching(&mut self) {
        self.cur += 1;
    }
    fn start_matching(&mut self, mut handle_sequence: impl for<'a> FnMut(Sequence<'a>)) {
        let p = self.parses.get(self.cur).cloned().unwrap_or_default();
        self.cur += 1;
        let mut pos = 0;
        for s in &p {
            handle_sequence(Sequence::Triple { literals: &self.last[pos..pos + s.ll], offset: s.of, match_len: s.ml });
            pos += s.ll + s.ml;
        }
        if pos < self.last.len() {
            handle_sequence(Sequence::Literals { literals: &self.last[pos..] });
        }
    }
    fn reset(&mut self, _level: CompressionLevel) {
        self.cur = 0;
        self.last.clear();
    }
    fn window_size(&self) -> u64 {
        self.window
    }
}

/// is the parse well-behaved for this input? (the harness only feeds parses for which this holds)
pub fn valid(input: &[u8], block: usize, window: u64, parses: &[Parse]) -> bool {
    for (bi, chunk) in input.chunks(block).enumerate() {
        let base = bi * block;
        let mut pos = 0;
        for s in parses.get(bi).map(|p| p.as_slice()).unwrap_or(&[]) {
            pos += s.ll;
            let g = base + pos;
            if s.ml < 3 || s.of == 0 || s.of > g || s.of as u64 > window || pos + s.ml > chunk.len() {
                return false;
            }
            for i in 0..s.ml {
                if input[g + i] != input[g + i - s.of] {
                    return false;
                }
            }
            pos += s.ml;
        }
        if pos > chunk.len() {
            return false;
        }
    }
    true
}

pub fn compress_with(input: &[u8], block: usize, window: u64, parses: Vec<Parse>) -> Result<Vec<u8>, String> {
    guarded(|| {
        let m = ScriptMatcher::new(block, window, parses);
        let mut c: FrameCompressor<&[u8], Vec<u8>, ScriptMatcher> = FrameCompressor::new_with_matcher(m, CompressionLevel::Fastest);
        c.set_source(input);
        c.set_drain(Vec::new());
        c.compress();
        c.take_drain().unwrap()
    })
}

pub fn case(a: &mut Acc, input: &[u8], block: usize, window: u64, parses: &[Parse], tag: &str) {
    let _ = case_w(a, input, block, window, parses, tag);
}

/// like `case`, and hands back what the strict walker saw (None if the frame was not produced or not well-formed)
pub fn case_w(a: &mut Acc, input: &[u8], block: usize, window: u64, parses: &[Parse], tag: &str) -> Option<zmodel::walker::Walk> {
    a.evals += 1;
    let nseq: usize = parses.iter().map(|p| p.len()).sum();
    if nseq > 0 {
        a.nontrivial += 1;
    }
    let rp = json!({"input": show(input), "input_len": input.len(), "block": block, "window": window, "parses": if nseq <= 40 { json!(parses.iter().map(|p| p.iter().map(|s| (s.ll, s.of, s.ml)).collect::<Vec<_>>()).collect::<Vec<_>>()) } else { json!(format!("{nseq} sequences; first block starts {:?}", &parses[0][..parses[0].len().min(4)])) }});
    match compress_with(input, block, window, parses.to_vec()) {
        Err(p) => {
            a.bad(format!("panic:{}", p.rsplit(" @ ").next().unwrap_or("")), format!("[{tag}] compress() with a well-behaved matcher panicked ({} bytes, blocks of {block}, {nseq} sequences): {p}", input.len()), rp);
            None
        }
        Ok(frame) => {
            let (f, w) = cmp::judge(input, &frame, CompressionLevel::Fastest, tag);
            if let Some(w) = &w {
                if w.blocks.iter().any(|b| b.kind == 2) {
                    a.extra[0] += 1; // at least one block really emitted in compressed form
                }
                if w.header.window_size < window {
                    a.bad(format!("window:{tag}"), format!("[{tag}] the frame declares a window of {} although the matcher reports {window}", w.header.window_size), rp.clone());
                }
            }
            for x in f {
                // the size formula of C15 assumes 128 KiB blocks; a user matcher may choose smaller spaces
                if x.identity.starts_with("size:") {
                    continue;
                }
                a.bad(format!("{}:{}", x.prop, x.identity), format!("[{tag}] {} (blocks of {block}, {nseq} sequences)", x.what), rp.clone());
            }
            w
        }
    }
}

/// every valid parse of a block [base, end) given the whole input; offsets limited by `offs` (None = all)
fn enum_parses(input: &[u8], base: usize, end: usize, window: usize, cap: usize, out: &mut Vec<Parse>) -> bool {
    fn rec(input: &[u8], base: usize, end: usize, window: usize, pos: usize, lit_start: usize, cur: &mut Parse, out: &mut Vec<Parse>, cap: usize) -> bool {
        if out.len() >= cap {
            return false;
        }
        if pos == end {
            out.push(cur.clone());
            return true;
        }
        // a match starting here
        let mut complete = true;
        for of in 1..=pos.min(window) {
            let mut l = 0;
            while pos + l < end && input[pos + l] == input[pos + l - of] {
                l += 1;
                if l >= 3 {
                    cur.push(PSeq { ll: pos - lit_start, of, ml: l });
                    complete &= rec(input, base, end, window, pos + l, pos + l, cur, out, cap);
                    cur.pop();
                }
            }
        }
        // or one more literal
        complete &= rec(input, base, end, window, pos + 1, lit_start, cur, out, cap);
        complete
    }
    rec(input, base, end, window, base, base, &mut vec![], out, cap)
}

fn complete_small(run: &mut Run, tier: Tier) {
    let th = meter::threads();
    let maxlen = tier.pick(12usize, 14);
    let mut inputs: Vec<Vec<u8>> = vec![];
    for len in 3..=maxlen {
        for i in 0..(1usize << len) {
            inputs.push((0..len).map(|b| b'a' + ((i >> b) & 1) as u8).collect());
        }
    }
    let cap = tier.pick(3000usize, 40000);
    let accs = meter::par_fold(inputs.len(), th, Acc::default, |a, i| {
        let input = &inputs[i];
        for block in [4usize, 11] {
            let nb = input.len().div_ceil(block);
            let mut per_block: Vec<Vec<Parse>> = vec![];
            let mut complete = true;
            for b in 0..nb {
                let mut v = vec![];
                complete &= enum_parses(input, b * block, ((b + 1) * block).min(input.len()), 1 << 20, cap, &mut v);
                per_block.push(v);
            }
            if !complete {
                a.extra[1] += 1;
            }
            // product over blocks (bounded by the cap as well)
            let mut idx = vec![0usize; nb];
            let mut count = 0;
            'outer: loop {
                let parses: Vec<Parse> = (0..nb).map(|b| per_block[b][idx[b]].clone()).collect();
                case(a, input, block, 1024, &parses, "complete small scope");
                count += 1;
                if count >= cap {
                    a.extra[1] += 1;
                    break;
                }
                for b in 0..nb {
                    idx[b] += 1;
                    if idx[b] < per_block[b].len() {
                        continue 'outer;
                    }
                    idx[b] = 0;
                }
                break;
            }
        }
    });
    let x = merge(run, "C16", &format!("every_valid_parse_inputs_up_to_len{maxlen}_blocks_4_and_11"), accs, true);
    run.set("small_scope_inputs_where_the_parse_cap_was_hit", x[1]);
    run.add("frames_with_a_compressed_block", x[0]);
}

/// blocks large enough to be emitted in compressed form: all parses of at most 4 sequences over a move set
fn restricted_moves(run: &mut Run, tier: Tier) {
    let th = meter::threads();
    let block = 32usize;
    let patterns: Vec<Vec<u8>> = vec![b"ab".to_vec(), b"aab".to_vec(), b"abc".to_vec(), b"abab".to_vec(), b"aabb".to_vec(), b"abcd".to_vec(), b"a".to_vec().into_iter().chain(b"bbbbbbbbbbbbbbb".iter().cloned()).collect()];
    let mut cases: Vec<(Vec<u8>, Vec<Parse>)> = vec![];
    let max_seq = tier.pick(3usize, 4);
    for pat in &patterns {
        let input: Vec<u8> = (0..2 * block).map(|i| pat[i % pat.len()]).collect();
        let lls = [0usize, 1, 2, 5];
        let mls = [3usize, 4, 7, 16, usize::MAX];
        let per = pat.len();
        // parses of one block starting at `base` under the move set
        let gen_block = |base: usize| -> Vec<Parse> {
            let mut out = vec![vec![]];
            fn rec(input: &[u8], base: usize, end: usize, pos: usize, cur: &mut Parse, out: &mut Vec<Parse>, lls: &[usize], mls: &[usize], per: usize, max_seq: usize) {
                if cur.len() >= max_seq {
                    return;
                }
                for &ll in lls {
                    let p = pos + ll;
                    if p >= end {
                        continue;
                    }
                    let mut offs = vec![per, 2 * per, p];
                    if p >= 1 {
                        offs.push(1);
                    }
                    offs.retain(|o| *o >= 1 && *o <= p);
                    offs.sort();
                    offs.dedup();
                    for of in offs {
                        for &ml in mls {
                            let ml = if ml == usize::MAX { end - p } else { ml };
                            if ml < 3 || p + ml > end {
                                continue;
                            }
                            if (0..ml).all(|i| input[p + i] == input[p + i - of]) {
                                cur.push(PSeq { ll, of, ml });
                                out.push(cur.clone());
                                rec(input, base, end, p + ml, cur, out, lls, mls, per, max_seq);
                                cur.pop();
                            }
                        }
                    }
                }
            }
            rec(&input, base, base + block, base, &mut vec![], &mut out, &lls, &mls, per, max_seq);
            out
        };
        let p0 = gen_block(0);
        let p1 = gen_block(block);
        // all parses of block 0 with a fixed parse of block 1, and vice versa
        let fixed1 = p1.iter().max_by_key(|p| p.iter().map(|s| s.ml).sum::<usize>()).cloned().unwrap_or_default();
        let fixed0 = p0.iter().max_by_key(|p| p.iter().map(|s| s.ml).sum::<usize>()).cloned().unwrap_or_default();
        for p in &p0 {
            cases.push((input.clone(), vec![p.clone(), fixed1.clone()]));
        }
        for p in &p1 {
            cases.push((input.clone(), vec![fixed0.clone(), p.clone()]));
        }
    }
    let accs = meter::par_fold(cases.len(), th, Acc::default, |a, i| {
        let (input, parses) = &cases[i];
        if valid(input, block, 1024, parses) {
            case(a, input, block, 1024, parses, "restricted moves");
        } else {
            a.extra[2] += 1;
        }
    });
    let x = merge(run, "C16", "restricted_move_parses_block32", accs, true);
    run.add("frames_with_a_compressed_block", x[0]);
    if x[2] > 0 {
        run.machinery_error(format!("{} generated parses were not valid", x[2]));
    }
}

fn directed(run: &mut Run, tier: Tier) {
    let th = meter::threads();
    const B: usize = 128 * 1024;
    let mut cases: Vec<(String, Vec<u8>, usize, u64, Vec<Parse>)> = vec![];
    let abc = |n: usize| -> Vec<u8> { (0..n).map(|i| b"abc"[i % 3]).collect() };
    // sequence counts at the count-format thresholds: "abc" repeated, one 3-byte match per sequence
    for k in [1usize, 2, 126, 127, 128, 129, 255, 256, 0x7EFF, 0x7F00, 0x7F01, 0x7FFF, 0x8000, 0x8001, 43689] {
        let n = 3 + 3 * k;
        if n <= B {
            let mut p = vec![PSeq { ll: 3, of: 3, ml: 3 }];
            p.extend(std::iter::repeat(PSeq { ll: 0, of: 3, ml: 3 }).take(k - 1));
            cases.push((format!("{k} sequences of match length 3 in one block"), abc(n), B, 1 << 17, vec![p]));
            // second block: every literal length 0 (all LL codes equal), matches into the previous block
            if 2 * n <= 2 * B && n == B / 3 * 3 {
                continue;
            }
        }
    }
    // a block consisting of exactly one sequence of match length 3 (single-symbol histograms for all three tables)
    cases.push(("one sequence: 5 literals + match of 3".into(), b"abcdeabc".to_vec(), B, 1 << 17, vec![vec![PSeq { ll: 5, of: 5, ml: 3 }]]));
    cases.push(("one sequence with literal length 0 in the second block".into(), b"abcdabcd".to_vec(), 4, 1024, vec![vec![], vec![PSeq { ll: 0, of: 4, ml: 4 }]]));
    cases.push(("all literal lengths 0: second block fully matched into the first".into(), { let mut v = cmp::unique(3000, 1); let c = v.clone(); v.extend(c); v }, 3000, 1 << 17, vec![vec![], (0..1000).map(|_| PSeq { ll: 0, of: 3000, ml: 3 }).collect()]));
    // literal / match lengths at every code boundary
    for &(b, _) in zmodel::tables::LL_BASE.iter() {
        for ll in [(b as usize).saturating_sub(1), b as usize, b as usize + 1] {
            if ll >= 4 && ll + 8 <= B {
                // compressible (skewed) but repeat-free literals, so that the block is emitted in compressed form
                // whenever the literals section pays for itself
                let mut v = cmp::skewed_unique(ll, ll as u32);
                let h: Vec<u8> = v[..4].to_vec();
                v.extend_from_slice(&h);
                cases.push((format!("literal length {ll}"), v.clone(), B, 1 << 17, vec![vec![PSeq { ll, of: ll, ml: 4 }]]));
                // and as the second of two sequences, after a long first match
                if ll + 600 <= B {
                    let mut w: Vec<u8> = (0..300).map(|i| b"pq"[i % 2]).collect();
                    let start = w.len();
                    w.extend_from_slice(&v[..ll]);
                    w.extend_from_slice(&vec![b'z'; 200]);
                    cases.push((format!("literal length {ll} between two long matches"), w, B, 1 << 17, vec![vec![PSeq { ll: 2, of: 2, ml: 298 }, PSeq { ll: ll + 1, of: 1, ml: 199 }]]));
                    let _ = start;
                }
            }
        }
    }
    for &(b, _) in zmodel::tables::ML_BASE.iter() {
        for ml in [(b as usize).saturating_sub(1), b as usize, b as usize + 1, B - 4] {
            if ml >= 3 && ml + 4 <= B {
                // overlapping match with offset 4 after 4 literals
                let v: Vec<u8> = (0..ml + 4).map(|i| b"wxyz"[i % 4]).collect();
                cases.push((format!("match length {ml} (overlapping, offset 4)"), v, B, 1 << 17, vec![vec![PSeq { ll: 4, of: 4, ml }]]));
            }
        }
    }
    // offsets: 1, exactly the reported window, exactly back to the first byte of the oldest block in the window
    for (window, blocks_in) in [(1024u64, 1usize), (1 << 17, 1), (1 << 17, 2), (8 << 20, 3)] {
        let block = 1024usize.max((window as usize / blocks_in).min(B));
        let n = block * (blocks_in + 1);
        let base = cmp::unique(block, window as u32);
        let mut v = vec![];
        for _ in 0..=blocks_in {
            v.extend_from_slice(&base);
        }
        v.truncate(n);
        let mut parses: Vec<Parse> = vec![vec![]];
        for b in 1..=blocks_in {
            // the whole block is a copy of the block `b` blocks back at offset b*block... use offset = block (previous block)
            let of = if b == blocks_in { (b * block).min(window as usize) } else { block };
            if of % block == 0 {
                parses.push(vec![PSeq { ll: 0, of, ml: block }]);
            } else {
                parses.push(vec![]);
            }
        }
        cases.push((format!("offset reaching {} block(s) back (window {window}, block {block})", blocks_in), v, block, window, parses));
    }
    // windows that are not a power of two (the header can only express some sizes: it must round up, never down),
    // with one match whose offset is exactly the reported window
    for window in [1025usize, 1536, 2047, 2049, 3000, 3072, 4097, 6000, 100_000, 131_073, 200_000, 458_752, (1 << 20) + 1] {
        // a block may not regenerate more than the window (Block_Maximum_Size), so the spaces are at most one window
        let block = B.min(window);
        let mut v = cmp::unique(window, window as u32);
        let head: Vec<u8> = v[..64].to_vec();
        v.extend_from_slice(&head);
        let nblocks = v.len().div_ceil(block);
        let start = (nblocks - 1) * block;
        assert!(window >= start, "the far match must lie within the last block");
        let mut parses: Vec<Parse> = vec![vec![]; nblocks - 1];
        parses.push(vec![PSeq { ll: window - start, of: window, ml: 64 }]);
        cases.push((format!("window {window} (not a power of two), one match at offset = window"), v, block, window as u64, parses));
    }
    // a block emitted compressed but with raw literals (1112 literals over 200 values: the table description costs
    // more than Huffman coding saves; an overlapping match makes the block worth compressing), then a block over
    // the same values with eight of them dominating, then the first kind again: no table may be assumed that was
    // never written
    for (top, rare) in [(400usize, 3usize), (800, 4), (3000, 6)] {
        let p1 = cmp::multiset200(&|s| if s < 8 { 7 } else if s < 104 { 6 } else { 5 }, 71);
        let p2 = cmp::multiset200(&|s| if s < 8 { top } else { rare }, 72 + top as u64);
        let size = p2.len() + 1000;
        let mut v = vec![];
        let mut parses: Vec<Parse> = vec![];
        for which in [1, 2, 1, 2] {
            let p = if which == 1 { &p1 } else { &p2 };
            let start = v.len();
            v.extend_from_slice(p);
            while v.len() < start + size {
                v.push(v[v.len() - p.len()]);
            }
            parses.push(vec![PSeq { ll: p.len(), of: p.len(), ml: size - p.len() }]);
        }
        cases.push((format!("raw-literals compressed block, then literals over the same 200 values with eight at {top} and the others at {rare}, twice"), v, size, 1 << 17, parses));
    }
    cases.push(("offset 1 run".into(), { let mut v = b"ab".to_vec(); v.extend(std::iter::repeat(b'b').take(500)); v.extend_from_slice(b"cd"); v }, B, 1024, vec![vec![PSeq { ll: 2, of: 1, ml: 500 }]]));
    // Huffman block, raw-fallback block, Huffman-again block (literals just above 1024), custom matcher finds nothing
    {
        let mut v = cmp::skewed_unique(1100, 1);
        v.extend(cmp::unique(1100, 2));
        v.extend(cmp::skewed_unique(1100, 1));
        cases.push(("three blocks of 1100 literals: skewed, incompressible, skewed again".into(), v, 1100, 1 << 17, vec![vec![], vec![], vec![]]));
        for lits in [1023usize, 1024, 1025, 1026] {
            let mut v = cmp::skewed_unique(lits, 3);
            let h: Vec<u8> = v[..200].to_vec();
            v.extend_from_slice(&h);
            cases.push((format!("{lits} literals then a 200-byte match"), v, B, 1 << 17, vec![vec![PSeq { ll: lits, of: lits, ml: 200 }]]));
        }
    }
    // more than 1024 literals that are all the same byte; everything else matched into the previous block
    {
        let first = cmp::unique(6000, 9);
        let mut second = vec![];
        let mut p = vec![];
        for i in 0..1500 {
            second.push(b'Q');
            second.extend_from_slice(&first[i * 2..i * 2 + 3]);
            // offset back to the same bytes in the first block
            let pos_in_second = second.len() - 3;
            p.push(PSeq { ll: 1, of: 6000 + pos_in_second - i * 2, ml: 3 });
        }
        let mut v = first.clone();
        v.extend_from_slice(&second);
        cases.push(("1500 literals, all the byte 'Q', every other byte matched into the previous block".into(), v, 6000, 1 << 17, vec![vec![], p]));
    }
    let _ = tier;
    let accs = meter::par_fold(cases.len(), th, Acc::default, |a, i| {
        let (name, input, block, window, parses) = &cases[i];
        // blocks: the first case family uses one block per `block` bytes
        if !valid(input, *block, *window, parses) {
            a.extra[2] += 1;
            a.bad(format!("MODEL:invalid_directed_parse:{i}"), format!("harness: directed parse [{name}] is not valid"), json!({}));
            return;
        }
        case(a, input, *block, *window, parses, name);
    });
    let x = merge(run, "C16", "threshold_directed_parses", accs, false);
    run.add("frames_with_a_compressed_block", x[0]);
}

/// the Huffman table reuse decision (treeless literals) over every pair of small alphabets: a matcher that
/// reports no matches at all, so every block is one literals section of 1100 bytes
/// (e) the distribution of literal-length, match-length and offset codes within one block decides which table
/// form and which accuracy log the encoder writes for each of the three fields: for each field every support
/// size (lowest codes, and codes spread over the range), uses per code from 1 to 64, with and without one extra
/// code used a single time (normalisation subtracts the smallest count, so that one changes the scale)
pub fn code_distributions(run: &mut Run, tier: Tier, prop: &str) {
    use zmodel::tables::{LL_BASE, ML_BASE};
    let th = meter::threads();
    const B: usize = 128 * 1024;
    let first = cmp::unique(B, 77);
    // value representing code c of each field (smallest value of the code)
    let ll_val = |c: usize| LL_BASE[c].0 as usize;
    let ml_val = |c: usize| ML_BASE[c].0 as usize;
    let of_val = |c: usize| (1usize << c) - 3 + (c % 3); // offset code c <=> ilog2(offset + 3) == c
    let avail: [Vec<usize>; 3] = [(0..=27).collect(), (0..=44).collect(), (2..=17).collect()];
    let names = ["literal-length", "match-length", "offset"];
    let mut cases: Vec<(String, Vec<u8>, Vec<Parse>, usize)> = vec![];
    for field in 0..3 {
        let av = &avail[field];
        let mut ks: Vec<usize> = vec![2, 3, 4, 6, 8, 11, 13, 14, 16, 20, 28, 36, 45];
        ks.retain(|k| *k <= av.len());
        if !ks.contains(&av.len()) {
            ks.push(av.len());
        }
        for &k in &ks {
            for spread in [false, true] {
                let codes: Vec<usize> = if spread { (0..k).map(|i| av[i * (av.len() - 1) / (k - 1).max(1)]).collect() } else { av[..k].to_vec() };
                if spread && codes == av[..k] {
                    continue;
                }
                for n in tier.pick(vec![1usize, 2, 5, 19, 20, 21, 32, 64], vec![1, 2, 3, 5, 8, 13, 19, 20, 21, 25, 32, 40, 64, 100]) {
                    for rare in [false, true] {
                        let rare_code = av.iter().rev().find(|c| !codes.contains(c)).cloned();
                        if rare && (rare_code.is_none() || n == 1) {
                            continue;
                        }
                        let mut order: Vec<usize> = vec![];
                        for _ in 0..n {
                            order.extend_from_slice(&codes);
                        }
                        if rare {
                            order.insert(order.len() / 2, rare_code.unwrap());
                        }
                        // realise the second block: fresh literals, matches copied from `of` bytes back
                        let mut data = first.clone();
                        let mut parse: Parse = vec![];
                        let mut fresh = crate::cmp::xorshift(field as u64 * 1000 + k as u64 * 10 + n as u64);
                        for &c in &order {
                            let (ll, ml, of) = match field {
                                0 => (ll_val(c), 3, 1024),
                                1 => (1, ml_val(c), 2048),
                                _ => (1, 4, of_val(c)),
                            };
                            for _ in 0..ll {
                                data.push(fresh() as u8);
                            }
                            for _ in 0..ml {
                                data.push(data[data.len() - of]);
                            }
                            parse.push(PSeq { ll, of, ml });
                        }
                        if data.len() > 2 * B {
                            continue; // does not fit one block
                        }
                        cases.push((format!("{} codes: {k} codes ({}) x {n} uses{}", names[field], if spread { "spread" } else { "lowest" }, if rare { " + one code used once" } else { "" }), data, vec![vec![], parse], field));
                    }
                }
            }
        }
    }
    let seen: std::sync::Mutex<std::collections::BTreeSet<(usize, u8)>> = std::sync::Mutex::new(Default::default());
    let accs = meter::par_fold(cases.len(), th, Acc::default, |a, i| {
        let (name, input, parses, field) = &cases[i];
        if !valid(input, B, 1 << 18, parses) {
            a.bad(format!("MODEL:invalid_code_distribution_parse:{i}"), format!("harness: parse [{name}] is not valid"), json!({}));
            return;
        }
        if let Some(w) = case_w(a, input, B, 1 << 18, parses, name) {
            if let Some(m) = w.blocks.get(1).and_then(|b| b.modes) {
                // modes byte: LL bits 7-6, OF bits 5-4, ML bits 3-2
                let mode = match field {
                    0 => m >> 6,
                    1 => (m >> 2) & 3,
                    _ => (m >> 4) & 3,
                };
                seen.lock().unwrap().insert((*field, mode));
                if mode == 2 {
                    a.extra[1] += 1;
                }
            }
        }
    });
    let x = merge(run, prop, "code_distributions_per_field", accs, false);
    run.add("frames_with_a_compressed_block", x[0]);
    run.set("code_distribution_blocks_with_an_fse_table_for_the_varied_field", x[1]);
    run.set("code_distribution_modes_seen_per_field", json!(seen.lock().unwrap().iter().map(|(f, m)| format!("{}: mode {m}", names[*f])).collect::<Vec<_>>()));
}

pub fn table_reuse(run: &mut Run, tier: Tier, prop: &str) {
    let th = meter::threads();
    let nsym = tier.pick(5usize, 6);
    let subsets: Vec<Vec<u8>> = (1u32..(1 << nsym)).filter(|m| m.count_ones() >= 2).map(|m| (0..nsym as u8).filter(|b| m >> b & 1 == 1).collect()).collect();
    // three frequency profiles per alphabet: descending, ascending, flat with one dominant symbol
    let block = |syms: &[u8], profile: usize, salt: u64| -> Vec<u8> {
        let n = 1100usize;
        let k = syms.len();
        let w: Vec<usize> = (0..k)
            .map(|r| match profile {
                0 => 1 << (k - 1 - r).min(9),
                1 => 1 << r.min(9),
                _ => {
                    if r == k / 2 {
                        40
                    } else {
                        3
                    }
                }
            })
            .collect();
        let tot: usize = w.iter().sum();
        let mut v = vec![];
        for (r, wr) in w.iter().enumerate() {
            v.extend(std::iter::repeat(syms[r]).take((wr * n / tot).max(1)));
        }
        while v.len() < n {
            v.push(syms[0]);
        }
        v.truncate(n);
        let mut rnd = cmp::xorshift(salt);
        for i in (1..v.len()).rev() {
            let j = (rnd() % (i as u64 + 1)) as usize;
            v.swap(i, j);
        }
        // make sure every symbol of the alphabet occurs
        for (i, s) in syms.iter().enumerate() {
            v[i * 7 % n] = *s;
        }
        v
    };
    let total = subsets.len() * subsets.len() * 9;
    let accs = meter::par_fold(total, th, Acc::default, |a, i| {
        let (s1, s2, prof) = (&subsets[i / 9 / subsets.len()], &subsets[(i / 9) % subsets.len()], i % 9);
        let mut input = block(s1, prof / 3, 1);
        input.extend(block(s2, prof % 3, 2));
        // a third block over the first alphabet again: reuse after reuse / after a new table
        input.extend(block(s1, prof / 3, 3));
        // non-trivial here = a frame in which some block really reuses a table (treeless literals)
        if let Some(w) = case_w(a, &input, 1100, 1 << 17, &[vec![], vec![], vec![]], "table reuse, literal-only blocks") {
            if w.blocks.iter().any(|b| b.lits_type == Some(3)) {
                a.nontrivial += 1;
            }
        }
    });
    let x = merge(run, prop, &format!("huffman_table_reuse_all_pairs_of_alphabets_up_to_{nsym}_symbols"), accs, true);
    run.add("frames_with_a_compressed_block", x[0]);
}

pub fn main(tier: Tier, replay: Option<Value>) -> i32 {
    if replay.is_some() {
        println!("C16 replays are parse descriptions; rerun ./check C16");
        return 2;
    }
    let mut run = Run::new("C16", "exploration", tier);
    complete_small(&mut run, tier);
    restricted_moves(&mut run, tier);
    directed(&mut run, tier);
    code_distributions(&mut run, tier, "C16");
    table_reuse(&mut run, tier, "C16");
    run.set("exhaustive", false);
    run.set("rule", "a scripted Matcher replays a parse through the public trait. (a) every input over {a,b} of length 3..=12/14, cut into blocks of 4 and of 11 bytes, with EVERY valid parse of every block (all tilings by literal runs and matches of length >= 3 at every offset whose source really equals the target, incl. zero-length literal runs, overlapping matches and matches into earlier blocks; per-input cap reported); (b) 64-byte periodic inputs in blocks of 32 with every parse of <= 3/4 sequences over the move set ll in {0,1,2,5} x ml in {3,4,7,16,rest} x offset in {period, 2*period, max, 1}, which are large enough to be emitted compressed; (c) parses directed at the encoder's thresholds: sequence counts at 1,2,126..129,255,256,0x7EFF..0x7F01,0x7FFF..0x8001,43689; single-sequence blocks; all literal lengths 0; every literal-length and match-length code boundary up to a whole block; offsets 1, exactly the window, exactly n blocks back for windows of 1 KiB / 128 KiB / 8 MiB; 13 windows that are not powers of two (1025 .. 1 MiB + 1) with a match at offset = window; Huffman / raw fallback / Huffman block triples; > 1024 literals of a single byte value; (d) the Huffman table reuse decision: every ordered pair of alphabets that are subsets (>= 2 symbols) of 5/6 byte values x 9 frequency-profile pairs as three literal-only 1100-byte blocks (first alphabet, second, first again) through a matcher that reports no matches. (e) code distributions: for each of literal-length / match-length / offset codes, 2..=all usable codes (lowest and spread) x 1..=64 (100) uses per code, with and without one extra code used once, as the second block of a two-block input (decides table form and accuracy log). Oracle: no panic, this crate's decoder and libzstd return the input, the strict walker accepts, declared window >= reported window. non-trivial = parses with at least one match");
    run.sample(json!({"input": "abababab", "block": 4, "parses": [[], [[0, 2, 4]]], "meaning": "second block is one match of length 4 at offset 2 with no literals"}));
    run.assume("well-behaved = literal runs and matches tile each block exactly, match length >= 3, offset <= declared window and <= data seen so far, source bytes equal target bytes; checked by the harness for every parse it feeds");
    run.finish()
}
