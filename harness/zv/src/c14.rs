//! C14 — sequence codes, repeat-offset rules and section headers match the specification.
//! Finite domains swept completely through the pass-through hooks, against zmodel's RFC tables.
use crate::ev::{hex, Run, Tier, Violation};
use crate::meter::{self, guarded};
use ruzstd::verif as rz;
use serde_json::{json, Value};
use zmodel::tables::*;

/// accumulates per-thread results of a sweep
#[derive(Default)]
struct Acc {
    evals: u64,
    nontrivial: u64,
    viol: Vec<Violation>,
}
impl Acc {
    fn bad(&mut self, identity: String, what: String, replay: Value) {
        if self.viol.len() < 4 && !self.viol.iter().any(|v| v.identity == identity) {
            self.viol.push(Violation { identity, what, replay });
        }
    }
}
fn merge(run: &mut Run, name: &str, accs: Vec<Acc>, exhaustive: bool) {
    let mut e = 0;
    let mut n = 0;
    for a in accs {
        e += a.evals;
        n += a.nontrivial;
        for v in a.viol {
            run.violation(v);
        }
    }
    run.add("evaluations", e);
    run.add("distinct_nontrivial", n);
    run.set(&format!("sub_{name}_evaluations"), e);
    run.set(&format!("sub_{name}_exhaustive"), exhaustive);
    run.set(&format!("sub_{name}_nontrivial"), n);
    println!("C14 {name}: {e} evaluations ({n} non-trivial), exhaustive={exhaustive}, {:.1}s", run.elapsed());
}

fn ll_ml(run: &mut Run) {
    let th = meter::threads();
    // literal lengths 0..=131071
    let accs = meter::par_fold(131072, th, Acc::default, |a, v| {
        let v = v as u32;
        a.evals += 1;
        let want = code_of(&LL_BASE, v).unwrap();
        match guarded(|| rz::encode_literal_length(v)) {
            Ok((c, x, n)) => {
                if (c, x, n as u8) != want {
                    a.bad(format!("encode_literal_length:code{}", want.0), format!("encode_literal_length({v}) = ({c},{x},{n}), specification says {:?}", want), json!({"fn": "encode_literal_length", "value": v}));
                } else {
                    let (base, nb) = rz::lookup_ll_code(c);
                    if base + x != v || nb as usize != n {
                        a.bad(format!("lookup_ll_code:code{c}"), format!("lookup_ll_code({c}) = ({base},{nb}) does not invert the encoder for {v}"), json!({"fn": "lookup_ll_code", "code": c, "value": v}));
                    }
                }
            }
            Err(p) => a.bad("encode_literal_length:panic".into(), format!("encode_literal_length({v}) panicked: {p}"), json!({"fn": "encode_literal_length", "value": v})),
        }
        if want.2 > 0 {
            a.nontrivial += 1;
        }
    });
    merge(run, "literal_length_values", accs, true);
    let accs = meter::par_fold(131072, th, Acc::default, |a, v| {
        let v = v as u32 + 3;
        a.evals += 1;
        let want = code_of(&ML_BASE, v).unwrap();
        match guarded(|| rz::encode_match_len(v)) {
            Ok((c, x, n)) => {
                if (c, x, n as u8) != want {
                    a.bad(format!("encode_match_len:code{}", want.0), format!("encode_match_len({v}) = ({c},{x},{n}), specification says {:?}", want), json!({"fn": "encode_match_len", "value": v}));
                } else {
                    let (base, nb) = rz::lookup_ml_code(c);
                    if base + x != v || nb as usize != n {
                        a.bad(format!("lookup_ml_code:code{c}"), format!("lookup_ml_code({c}) = ({base},{nb}) does not invert the encoder for {v}"), json!({"fn": "lookup_ml_code", "code": c, "value": v}));
                    }
                }
            }
            Err(p) => a.bad("encode_match_len:panic".into(), format!("encode_match_len({v}) panicked: {p}"), json!({"fn": "encode_match_len", "value": v})),
        }
        if want.2 > 0 {
            a.nontrivial += 1;
        }
    });
    merge(run, "match_length_values", accs, true);
    // decoder tables on their own, every code
    let mut a = Acc::default();
    for c in 0..36u8 {
        a.evals += 1;
        a.nontrivial += 1;
        let got = rz::lookup_ll_code(c);
        if got != LL_BASE[c as usize] {
            a.bad(format!("lookup_ll_code:code{c}"), format!("lookup_ll_code({c}) = {:?}, specification says {:?}", got, LL_BASE[c as usize]), json!({"fn": "lookup_ll_code", "code": c}));
        }
    }
    for c in 0..53u8 {
        a.evals += 1;
        a.nontrivial += 1;
        let got = rz::lookup_ml_code(c);
        if got != ML_BASE[c as usize] {
            a.bad(format!("lookup_ml_code:code{c}"), format!("lookup_ml_code({c}) = {:?}, specification says {:?}", got, ML_BASE[c as usize]), json!({"fn": "lookup_ml_code", "code": c}));
        }
    }
    merge(run, "decoder_code_tables", vec![a], true);
}

fn check_offset(a: &mut Acc, v: u32) {
    a.evals += 1;
    let want = of_code(v);
    let (c, x, n) = rz::encode_offset(v);
    if (c, x, n as u8) != want {
        a.bad(format!("encode_offset:code{}", want.0), format!("encode_offset({v}) = ({c},{x},{n}), specification says {:?}", want), json!({"fn": "encode_offset", "value": v}));
    }
}
fn offsets(run: &mut Run, tier: Tier) {
    let th = meter::threads();
    if tier == Tier::Thorough {
        // every offset value 1..=2^32-1, in 2^16 slabs
        let accs = meter::par_fold(1 << 16, th, Acc::default, |a, hi| {
            let base = (hi as u64) << 16;
            for lo in 0..(1u64 << 16) {
                let v = base + lo;
                if v == 0 {
                    continue;
                }
                check_offset(a, v as u32);
            }
            a.nontrivial += 1 << 16;
        });
        merge(run, "offset_values", accs, true);
    } else {
        let accs = meter::par_fold(1 << 22, th, Acc::default, |a, v| {
            if v > 0 {
                check_offset(a, v as u32);
                a.nontrivial += 1;
            }
        });
        merge(run, "offset_values_below_2^22", accs, true);
        let mut a = Acc::default();
        for k in 1..32u32 {
            for d in [-2i64, -1, 0, 1, 2, 3] {
                let v = (1i64 << k) + d;
                if v >= 1 && v <= u32::MAX as i64 {
                    check_offset(&mut a, v as u32);
                    a.nontrivial += 1;
                }
            }
        }
        check_offset(&mut a, u32::MAX);
        merge(run, "offset_code_boundaries", vec![a], false);
    }
}

fn seq_counts(run: &mut Run) {
    let th = meter::threads();
    // writer -> parser for every count the format can carry
    let accs = meter::par_fold(98047, th, Acc::default, |a, i| {
        let n = i + 1;
        a.evals += 1;
        a.nontrivial += 1;
        match guarded(|| rz::encode_seqnum(n)) {
            Ok(mut b) => {
                let written = b.clone();
                b.push(0xA8);
                match zmodel::walker::parse_sequences_header(&b) {
                    Ok((m, _, used)) if m == n && used == b.len() => {}
                    other => {
                        let form = if n < 128 { "1byte" } else if n < 0x7F00 { "2byte" } else if n < 0x8000 { "0x7F00..0x7FFF" } else { "3byte" };
                        a.bad(format!("encode_seqnum:{form}"), format!("encode_seqnum({n}) wrote {} which the specification reads as {:?}", hex(&written), other), json!({"fn": "encode_seqnum", "value": n}));
                        return;
                    }
                }
                match rz::parse_sequences_header(&b) {
                    Ok((used, m, Some(0xA8))) if m as usize == n && used as usize == b.len() => {}
                    other => a.bad("encode_seqnum:readback".into(), format!("encode_seqnum({n}) wrote {} which the crate's parser reads as {:?}", hex(&written), other), json!({"fn": "encode_seqnum", "value": n})),
                }
            }
            Err(p) => a.bad("encode_seqnum:panic".into(), format!("encode_seqnum({n}) panicked: {p}"), json!({"fn": "encode_seqnum", "value": n})),
        }
    });
    merge(run, "sequence_count_writer", accs, true);
    // parser on every 1-, 2-, 3-byte pattern followed by a modes byte, and on every truncation of it
    let accs = meter::par_fold(1 << 24, th, Acc::default, |a, i| {
        let b = [(i >> 16) as u8, (i >> 8) as u8, i as u8, 0xA8];
        // canonical representatives only: bytes the form does not use are zero
        let used_count_bytes = if b[0] < 128 { 1 } else if b[0] < 255 { 2 } else { 3 };
        if (used_count_bytes < 3 && b[2] != 0) || (used_count_bytes < 2 && b[1] != 0) {
            return;
        }
        let mut src = b[..used_count_bytes].to_vec();
        src.push(0xA8);
        for cut in 0..=src.len() {
            a.evals += 1;
            let s = &src[..cut];
            let want = zmodel::walker::parse_sequences_header(s);
            let got = guarded(|| rz::parse_sequences_header(s));
            match (want, got) {
                (_, Err(p)) => a.bad("parse_sequences_header:panic".into(), format!("parse_sequences_header({}) panicked: {p}", hex(s)), json!({"fn": "parse_sequences_header", "bytes": hex(s)})),
                (Ok((n, modes, used)), Ok(Ok((gu, gn, gm)))) => {
                    if cut == src.len() {
                        a.nontrivial += 1;
                    }
                    if gn as usize != n || gm != modes || gu as usize != used {
                        a.bad(format!("parse_sequences_header:form{used_count_bytes}"), format!("parse_sequences_header({}) = (used {gu}, n {gn}, modes {gm:?}); specification: (used {used}, n {n}, modes {modes:?})", hex(s)), json!({"fn": "parse_sequences_header", "bytes": hex(s)}));
                    }
                }
                (Err(_), Ok(Err(_))) => {}
                (Ok(w), Ok(Err(e))) => {
                    // the crate asks for the modes byte (and for 0xFF a fourth byte) up front; refusing a
                    // truncated header is fine, refusing a complete one is not
                    if cut == src.len() {
                        a.bad(format!("parse_sequences_header:refused{used_count_bytes}"), format!("parse_sequences_header({}) refused ({e}) a header the specification reads as {:?}", hex(s), w), json!({"fn": "parse_sequences_header", "bytes": hex(s)}));
                    }
                }
                (Err(e), Ok(Ok(g))) => a.bad(format!("parse_sequences_header:accepted{used_count_bytes}"), format!("parse_sequences_header({}) = {:?} but the header is incomplete ({e})", hex(s), g), json!({"fn": "parse_sequences_header", "bytes": hex(s)})),
            }
        }
    });
    merge(run, "sequence_count_parser_all_patterns", accs, true);
}

fn rep_offsets(run: &mut Run) {
    let mut a = Acc::default();
    let hv = [1u32, 2, 3, 5, 1 << 31, u32::MAX];
    for &of in &[1u32, 2, 3, 4, 5, 6, 1 << 31, u32::MAX] {
        for ll in [0u32, 1, 7] {
            for &h0 in &hv {
                for &h1 in &hv {
                    for &h2 in &hv {
                        a.evals += 1;
                        let mut m = [h0, h1, h2];
                        let want = zmodel::frame::resolve_offset(of, ll, &mut m);
                        let mut g = [h0, h1, h2];
                        let got = guarded(|| rz::do_offset_history(of, ll, &mut g));
                        let rp = json!({"fn": "do_offset_history", "offset_value": of, "ll": ll, "history": [h0, h1, h2]});
                        let id = format!("do_offset_history:of{}:ll{}", of.min(4), ll.min(1));
                        match (want, got) {
                            (_, Err(p)) => a.bad("do_offset_history:panic".into(), format!("do_offset_history({of},{ll},{:?}) panicked: {p}", [h0, h1, h2]), rp),
                            (Ok(w), Ok(gv)) => {
                                a.nontrivial += 1;
                                if gv != w || g != m {
                                    a.bad(id, format!("do_offset_history({of},{ll},{:?}) = {gv} history {:?}; specification: {w} history {:?}", [h0, h1, h2], g, m), rp);
                                }
                            }
                            (Err(_), Ok(gv)) => {
                                if gv != 0 {
                                    a.bad(id, format!("do_offset_history({of},{ll},{:?}) = {gv} where the specification's offset is 0 (corrupt)", [h0, h1, h2]), rp);
                                }
                            }
                        }
                    }
                }
            }
        }
    }
    merge(run, "repeat_offset_rule", vec![a], true);
}

fn block_headers(run: &mut Run) {
    let th = meter::threads();
    let accs = meter::par_fold(1 << 24, th, Acc::default, |a, i| {
        a.evals += 1;
        let b = [i as u8, (i >> 8) as u8, (i >> 16) as u8];
        let last = i & 1 == 1;
        let ty = ((i >> 1) & 3) as u8;
        let size = (i >> 3) as u32;
        let legal = ty != 3 && size as usize <= MAX_BLOCK;
        let rp = json!({"fn": "read_block_header", "bytes": hex(&b)});
        match guarded(|| rz::read_block_header(&b)) {
            Err(p) => a.bad("read_block_header:panic".into(), format!("read_block_header({}) panicked: {p}", hex(&b)), rp),
            Ok(Ok((gl, gt, gd, gc))) => {
                if !legal {
                    a.bad(format!("read_block_header:accepted:{}", if ty == 3 { "reserved" } else { "oversize" }), format!("read_block_header({}) accepted type {ty} size {size}", hex(&b)), rp);
                } else {
                    a.nontrivial += 1;
                    let want_d = if ty == 2 { 0 } else { size };
                    let want_c = if ty == 1 { 1 } else { size };
                    if gl != last || gt != ty || gd != want_d || gc != want_c {
                        a.bad(format!("read_block_header:fields:type{ty}"), format!("read_block_header({}) = (last {gl}, type {gt}, regenerated {gd}, stored {gc}); specification: (last {last}, type {ty}, {want_d}, {want_c})", hex(&b)), rp);
                    }
                }
            }
            Ok(Err(e)) => {
                if legal {
                    a.bad(format!("read_block_header:refused:type{ty}"), format!("read_block_header({}) refused a legal header (type {ty}, size {size}): {e}", hex(&b)), rp);
                }
            }
        }
    });
    merge(run, "block_header_parser_all_2^24", accs, true);
    // every header the encoder can serialise
    let accs = meter::par_fold(MAX_BLOCK + 1, th, Acc::default, |a, size| {
        for ty in 0..3u8 {
            for last in [false, true] {
                a.evals += 1;
                a.nontrivial += 1;
                let rp = json!({"fn": "serialize_block_header", "last": last, "type": ty, "size": size});
                match guarded(|| rz::serialize_block_header(last, ty, size as u32)) {
                    Ok(b) => {
                        let v = b.iter().enumerate().fold(0usize, |acc, (i, x)| acc | (*x as usize) << (8 * i));
                        if b.len() != 3 || v != (size << 3 | (ty as usize) << 1 | last as usize) {
                            a.bad(format!("serialize_block_header:type{ty}"), format!("serialize_block_header({last},{ty},{size}) = {}", hex(&b)), rp);
                        }
                    }
                    Err(p) => a.bad("serialize_block_header:panic".into(), format!("panicked: {p}"), rp),
                }
            }
        }
    });
    merge(run, "block_header_writer", accs, true);
}

fn frame_headers(run: &mut Run) {
    let th = meter::threads();
    // all 256 x 256 (descriptor, window byte) pairs x boundary values of the dictionary id and content size
    let accs = meter::par_fold(1 << 16, th, Acc::default, |a, i| {
        let d = (i >> 8) as u8;
        let wb = i as u8;
        let single = d & 0x20 != 0;
        if single && wb != 0 {
            return; // no window byte in the header: one representative
        }
        let did_len = [0usize, 1, 2, 4][(d & 3) as usize];
        let fcs_len = match d >> 6 {
            0 => single as usize,
            1 => 2,
            2 => 4,
            _ => 8,
        };
        let field_vals = |len: usize| -> Vec<Vec<u8>> {
            if len == 0 {
                return vec![vec![]];
            }
            let mut v = vec![vec![0u8; len], vec![0xFF; len]];
            let mut one = vec![0u8; len];
            one[0] = 1;
            v.push(one);
            let mut top = vec![0u8; len];
            top[len - 1] = 0x80;
            v.push(top);
            let mut mixed = vec![0u8; len];
            for (k, m) in mixed.iter_mut().enumerate() {
                *m = 0x11 * (k as u8 + 1);
            }
            v.push(mixed);
            v
        };
        for dv in field_vals(did_len) {
            for fv in field_vals(fcs_len) {
                a.evals += 1;
                let mut src = MAGIC.to_le_bytes().to_vec();
                src.push(d);
                if !single {
                    src.push(wb);
                }
                src.extend(&dv);
                src.extend(&fv);
                let rp = json!({"fn": "read_frame_header", "bytes": hex(&src)});
                // reference: zmodel's parser, except that the reserved bit is ignored here (the crate is
                // lenient about it, which no property forbids)
                let mut msrc = src.clone();
                msrc[4] &= !0x08;
                let want = zmodel::walker::parse_header(&msrc);
                let got = guarded(|| rz::read_frame_header(&src));
                match got {
                    Err(p) => a.bad("read_frame_header:panic".into(), format!("read_frame_header({}) panicked: {p}", hex(&src)), rp),
                    Ok(Err(e)) => a.bad("read_frame_header:refused".into(), format!("read_frame_header({}) failed: {e}", hex(&src)), rp),
                    Ok(Ok(g)) => {
                        let legal_window = if single { true } else { (WINDOW_MIN..=WINDOW_MAX).contains(&window_of_descriptor(wb)) };
                        match (&want, &g.window_size) {
                            (Ok(w), Ok(gw)) => {
                                a.nontrivial += 1;
                                let mut diffs = vec![];
                                if *gw != w.window_size {
                                    diffs.push(format!("window {gw} vs {}", w.window_size));
                                }
                                if g.dictionary_id != w.dict_id {
                                    diffs.push(format!("dict id {:?} vs {:?}", g.dictionary_id, w.dict_id));
                                }
                                if g.frame_content_size != w.fcs.unwrap_or(0) {
                                    diffs.push(format!("content size {} vs {:?}", g.frame_content_size, w.fcs));
                                }
                                if g.content_checksum != w.checksum_flag || g.single_segment != w.single_segment || g.header_len as usize != w.header_len {
                                    diffs.push(format!("flags/len ({},{},{}) vs ({},{},{})", g.content_checksum, g.single_segment, g.header_len, w.checksum_flag, w.single_segment, w.header_len));
                                }
                                if !diffs.is_empty() {
                                    a.bad(format!("read_frame_header:fields:fcs{fcs_len}:did{did_len}"), format!("read_frame_header({}): {}", hex(&src), diffs.join("; ")), rp);
                                }
                            }
                            (Ok(w), Err(e)) => a.bad(format!("frame_header:legal_window_refused:desc{wb:#04x}"), format!("window descriptor {wb:#04x} declares the legal window {} (format maximum {WINDOW_MAX}) but window_size() fails: {e}", w.window_size), rp),
                            (Err(e), Ok(gw)) => {
                                if !legal_window {
                                    a.bad("frame_header:illegal_window_accepted".into(), format!("window descriptor {wb:#04x} is outside the legal range ({e}) but window_size() = {gw}"), rp);
                                }
                            }
                            (Err(_), Err(_)) => {}
                        }
                    }
                }
                // every truncation of a header must be an error, never a panic
                for cut in 0..src.len() {
                    a.evals += 1;
                    match guarded(|| rz::read_frame_header(&src[..cut])) {
                        Err(p) => a.bad("read_frame_header:panic".into(), format!("read_frame_header({}) panicked: {p}", hex(&src[..cut])), json!({"fn": "read_frame_header", "bytes": hex(&src[..cut])})),
                        Ok(Ok(_)) => a.bad("read_frame_header:truncated_accepted".into(), format!("read_frame_header accepted the {cut}-byte prefix of {}", hex(&src)), json!({"fn": "read_frame_header", "bytes": hex(&src[..cut])})),
                        Ok(Err(_)) => {}
                    }
                }
            }
        }
    });
    merge(run, "frame_header_parser_all_descriptor_window_pairs", accs, true);
    // the header the compressor writes for every matcher-reported window: read back, window >= reported
    let mut a = Acc::default();
    let mut ws: Vec<u64> = vec![0, 1, 2, 1000, 1023, 1024, 1025];
    for k in 10..=41u32 {
        for d in [-1i64, 0, 1] {
            let v = (1i64 << k) + d;
            if v as u64 <= 1u64 << 41 {
                ws.push(v as u64);
            }
        }
        ws.push((1u64 << k) + (1u64 << (k - 1)));
    }
    ws.retain(|w| *w <= 1u64 << 41);
    ws.sort();
    ws.dedup();
    for w in ws {
        for ck in [false, true] {
            a.evals += 1;
            a.nontrivial += 1;
            let rp = json!({"fn": "serialize_frame_header", "window": w, "checksum": ck});
            match guarded(|| rz::serialize_frame_header(None, false, ck, None, Some(w))) {
                Err(p) => a.bad("serialize_frame_header:panic".into(), format!("serialize_frame_header(window {w}) panicked: {p}"), rp),
                Ok(b) => match zmodel::walker::parse_header(&b) {
                    Ok(h) if h.header_len == b.len() && h.window_size >= w && h.checksum_flag == ck && h.dict_id.is_none() && h.fcs.is_none() && !h.single_segment => match rz::read_frame_header(&b) {
                        Ok(g) if g.window_size == Ok(h.window_size) => {}
                        Ok(g) => a.bad("serialize_frame_header:readback".into(), format!("header {} for window {w}: crate reads window {:?}, specification {}", hex(&b), g.window_size, h.window_size), rp),
                        Err(e) => a.bad("serialize_frame_header:readback".into(), format!("header {} for window {w} not readable: {e}", hex(&b)), rp),
                    },
                    other => a.bad("serialize_frame_header:window".into(), format!("header {} written for a matcher window of {w} reads as {:?}", hex(&b), other.map(|h| (h.window_size, h.checksum_flag, h.header_len))), rp),
                },
            }
        }
    }
    merge(run, "frame_header_writer", vec![a], true);
}

fn lit_header_case(a: &mut Acc, s: &[u8], count_nontrivial: bool) {
    a.evals += 1;
    let want = zmodel::walker::parse_literals_header(s);
    let rp = json!({"fn": "parse_literals_header", "bytes": hex(s)});
    match (want, guarded(|| rz::parse_literals_header(s))) {
        (_, Err(p)) => a.bad("parse_literals_header:panic".into(), format!("parse_literals_header({}) panicked: {p}", hex(s)), rp),
        (Ok((ty, regen, comp, streams, hl)), Ok(Ok((gu, gt, gr, gc, gs)))) => {
            if count_nontrivial {
                a.nontrivial += 1;
            }
            let ws = if ty >= 2 { Some(streams) } else { None };
            if gu as usize != hl || gt != ty || gr as usize != regen || gc.map(|x| x as usize) != comp || (ty >= 2 && gs != ws) {
                a.bad(format!("parse_literals_header:type{ty}:sf{}", (s[0] >> 2) & 3), format!("parse_literals_header({}) = (used {gu}, type {gt}, regen {gr}, comp {gc:?}, streams {gs:?}); specification: (used {hl}, type {ty}, regen {regen}, comp {comp:?}, streams {ws:?})", hex(s)), rp);
            }
        }
        (Err(_), Ok(Err(_))) => {}
        (Ok(w), Ok(Err(e))) => a.bad("parse_literals_header:refused".into(), format!("parse_literals_header({}) refused ({e}) what the specification reads as {:?}", hex(s), w), rp),
        (Err(e), Ok(Ok(g))) => a.bad("parse_literals_header:accepted_truncated".into(), format!("parse_literals_header({}) = {:?} although the header is incomplete ({e})", hex(s), g), rp),
    }
}

fn literal_headers(run: &mut Run, tier: Tier) {
    let th = meter::threads();
    let mut a = Acc::default();
    lit_header_case(&mut a, &[], false);
    for b0 in 0..=255u8 {
        lit_header_case(&mut a, &[b0], true);
    }
    merge(run, "literals_header_1_byte_strings", vec![a], true);
    let accs = meter::par_fold(1 << 16, th, Acc::default, |a, i| lit_header_case(a, &[i as u8, (i >> 8) as u8], true));
    merge(run, "literals_header_2_byte_strings", accs, true);
    let accs = meter::par_fold(1 << 24, th, Acc::default, |a, i| lit_header_case(a, &[i as u8, (i >> 8) as u8, (i >> 16) as u8], true));
    merge(run, "literals_header_3_byte_strings", accs, true);
    // 4-byte form (size format 2 of compressed / treeless): b0 low nibble in {0b1010, 0b1011}
    let b0s: Vec<u8> = (0..=255u8).filter(|b| (b & 3) >= 2 && (b >> 2) & 3 == 2).collect();
    if tier == Tier::Thorough {
        let accs = meter::par_fold(b0s.len() << 16, th, Acc::default, |a, i| {
            let b0 = b0s[i >> 16];
            let b1 = (i >> 8) as u8;
            let b2 = i as u8;
            for b3 in 0..=255u8 {
                lit_header_case(a, &[b0, b1, b2, b3], true);
            }
        });
        merge(run, "literals_header_4_byte_form_all_2^29", accs, true);
    } else {
        let accs = meter::par_fold(b0s.len() << 14, th, Acc::default, |a, i| {
            // regenerated size complete (14 bits) x compressed size at its boundaries
            let b0 = b0s[i >> 14];
            let regen = (i & 0x3FFF) as u32;
            for comp in [0u32, 1, 0x1FFF, 0x2000, 0x3FFF] {
                let v = (b0 as u32 & 15) | regen << 4 | comp << 18;
                lit_header_case(a, &v.to_le_bytes(), true);
            }
        });
        merge(run, "literals_header_4_byte_form_regen_complete_comp_boundaries", accs, false);
    }
    // 5-byte form: each 18-bit field complete with the other at its boundaries
    let accs = meter::par_fold(1 << 18, th, Acc::default, |a, x| {
        for ty in [2u64, 3] {
            for other in [0u64, 1, 0x1FFFF, 0x20000, 0x3FFFF] {
                for (regen, comp) in [(x as u64, other), (other, x as u64)] {
                    let v = ty | 3 << 2 | regen << 4 | comp << 22;
                    lit_header_case(a, &v.to_le_bytes()[..5], true);
                }
            }
        }
    });
    merge(run, "literals_header_5_byte_form_each_field_complete", accs, false);
    // every truncation of the long forms
    let mut a = Acc::default();
    for b0 in 0..=255u8 {
        for len in 1..5 {
            let s = [b0, 0x5A, 0xA5, 0x3C, 0xC3];
            lit_header_case(&mut a, &s[..len], false);
        }
    }
    merge(run, "literals_header_truncations", vec![a], true);
    // the writer for raw literals: every length (quick: up to 4096 and around powers of two)
    static ZEROS: [u8; MAX_BLOCK] = [0u8; MAX_BLOCK];
    let lens: Vec<usize> = if tier == Tier::Thorough {
        (0..=MAX_BLOCK).collect()
    } else {
        let mut v: Vec<usize> = (0..=4096).collect();
        for k in 12..=17 {
            for d in [-1i64, 0, 1] {
                let x = (1i64 << k) + d;
                if x as usize <= MAX_BLOCK {
                    v.push(x as usize);
                }
            }
        }
        v.sort();
        v.dedup();
        v
    };
    let ex = tier == Tier::Thorough;
    let accs = meter::par_fold(lens.len(), th, Acc::default, |a, i| {
        let n = lens[i];
        a.evals += 1;
        a.nontrivial += 1;
        let rp = json!({"fn": "raw_literals", "len": n});
        match guarded(|| rz::raw_literals(&ZEROS[..n])) {
            Err(p) => a.bad("raw_literals:panic".into(), format!("raw_literals({n} bytes) panicked: {p}"), rp),
            Ok(b) => match zmodel::walker::parse_literals_header(&b) {
                Ok((0, regen, None, _, hl)) if regen == n && b.len() == hl + n => {}
                other => a.bad("raw_literals:header".into(), format!("raw_literals({n} bytes) wrote header {} read as {:?}", hex(&b[..b.len().min(5)]), other), rp),
            },
        }
    });
    merge(run, "raw_literals_writer", accs, ex);
    // the writer for Huffman-compressed literals, with a new table and with a reused one ("treeless"): every length
    // (quick: 2..=4200 and around every power of two up to the block size). The content is skewed over four
    // symbols so the section really is Huffman-coded at every length that can be.
    static SKEW: std::sync::OnceLock<Vec<u8>> = std::sync::OnceLock::new();
    let skew = SKEW.get_or_init(|| (0..MAX_BLOCK).map(|i| [b'a', b'a', b'a', b'b', b'a', b'c', b'a', b'a', b'b', b'a', b'd'][i % 11]).collect());
    let lens: Vec<usize> = if tier == Tier::Thorough {
        (2..=MAX_BLOCK).collect()
    } else {
        let mut v: Vec<usize> = (2..=4200).collect();
        for k in 12..=17 {
            for d in -3i64..=3 {
                let x = (1i64 << k) + d;
                if x as usize <= MAX_BLOCK {
                    v.push(x as usize);
                }
            }
        }
        v.sort();
        v.dedup();
        v
    };
    let prior = guarded(|| rz::compress_literals(&skew[..4000], None)).ok().and_then(|x| x.1);
    let accs = meter::par_fold(lens.len() * 2, th, Acc::default, |a, i| {
        let n = lens[i / 2];
        let reuse = i % 2 == 1;
        a.evals += 1;
        let rp = json!({"fn": "compress_literals", "len": n, "reuse_table": reuse});
        let last = if reuse { prior.as_ref() } else { None };
        if reuse && last.is_none() {
            a.bad("MODEL: compress_literals:no_prior_table".into(), "compress_literals(4000 skewed literals) returned no table to reuse".into(), rp);
            return;
        }
        match guarded(|| rz::compress_literals(&skew[..n], last)) {
            Err(p) => a.bad("compress_literals:panic".into(), format!("compress_literals({n} literals, reuse = {reuse}) panicked: {p}"), rp),
            Ok((b, _)) => match zmodel::walker::parse_literals_header(&b) {
                // fell back to raw: the raw writer is covered above, the value must still be right
                Ok((0, regen, None, _, hl)) if regen == n && b.len() == hl + n => {}
                Ok((ty, regen, Some(comp), streams, hl)) if ty >= 2 => {
                    a.nontrivial += 1;
                    let sf = (b[0] >> 2) & 3;
                    let fits = match sf {
                        0 | 1 => n < 1 << 10 && comp < 1 << 10,
                        2 => n < 1 << 14 && comp < 1 << 14,
                        _ => n < 1 << 18 && comp < 1 << 18,
                    };
                    if regen != n || hl + comp != b.len() || !fits || (ty == 3) != reuse || (streams == 1) != (sf == 0) {
                        a.bad(format!("compress_literals:header:sf{sf}"), format!("compress_literals({n} literals, reuse = {reuse}) wrote header {} which reads as type {ty}, regenerated {regen}, compressed {comp}, {streams} stream(s), {hl} header bytes; the section has {} bytes after the header", hex(&b[..b.len().min(5)]), b.len() - hl.min(b.len())), rp);
                    } else if !reuse && (n > 4200 || n % 512 == 0) {
                        // at the boundary lengths the header is also read back by the decoder proper (not only by
                        // its header parser): the section as the only block of a frame
                        let mut frame = zmodel::frame::encode_header(&zmodel::frame::Header::window(0x38, false)).unwrap();
                        frame.extend(&(((b.len() + 1) as u32) << 3 | 2 << 1 | 1).to_le_bytes()[..3]);
                        frame.extend(&b);
                        frame.push(0);
                        let mut dec = ruzstd::decoding::FrameDecoder::new();
                        let mut out = Vec::with_capacity(n + 8);
                        match guarded(|| dec.decode_all_to_vec(&frame, &mut out)) {
                            Ok(Ok(())) if out == skew[..n] => {}
                            other => a.bad(format!("compress_literals:decoder_refuses:sf{sf}"), format!("a block holding only the literals section compress_literals wrote for {n} literals (header {}) is not decoded back by the crate: {:?}", hex(&b[..hl]), other.map(|r| r.map_err(|e| e.to_string()))), rp),
                        }
                    }
                }
                other => a.bad("compress_literals:header".into(), format!("compress_literals({n} literals, reuse = {reuse}) wrote header {} read as {:?}", hex(&b[..b.len().min(5)]), other), rp),
            },
        }
    });
    merge(run, "compressed_literals_header_writer", accs, ex);
}

pub fn main(tier: Tier, replay: Option<Value>) -> i32 {
    if let Some(r) = replay {
        return do_replay(&r["replay"]);
    }
    let mut run = Run::new("C14", "exploration", tier);
    ll_ml(&mut run);
    offsets(&mut run, tier);
    seq_counts(&mut run);
    rep_offsets(&mut run);
    block_headers(&mut run);
    frame_headers(&mut run);
    literal_headers(&mut run, tier);
    let all = run.cov.iter().filter(|(k, _)| k.ends_with("_exhaustive")).all(|(_, v)| v.as_bool() == Some(true));
    run.set("exhaustive", all);
    run.set("rule", "every value of each finite domain (literal lengths 0..=131071, match lengths 3..=131074, offset values, sequence counts 1..=98047, all 1/2/3-byte count patterns and their truncations, all 2^24 block headers, all 256x256 descriptor/window pairs x field boundary values and their truncations, all 1/2/3-byte literals-header strings, 4-/5-byte forms, the raw and the Huffman literals-header writers over every length up to 4096/4200 and around every power of two - every length up to the block size in the thorough tier) through the crate's real functions, compared with tables transcribed from RFC 8878 in zmodel; non-trivial = accepted by the specification and carrying extra bits / a legal value");
    run.sample(json!({"fn": "encode_literal_length", "value": 65535, "expected": [34, 32767, 15]}));
    run.sample(json!({"fn": "encode_seqnum", "value": 0x7F00, "expected_bytes": "ff0000"}));
    run.sample(json!({"fn": "read_block_header", "bytes": "fdff1f", "expected": "type 2, last, size 262143 -> refused (> 128 KiB)"}));
    run.sample(json!({"fn": "do_offset_history", "offset_value": 3, "ll": 0, "history": [5, 1, 2], "expected": {"offset": 4, "history": [4, 5, 1]}}));
    run.assume("zmodel::tables is a correct transcription of RFC 8878 (it is additionally pinned to libzstd by C01's frames, which use every code)");
    run.assume("matcher-reported windows above 2^41 are not considered (a window descriptor cannot express them)");
    run.finish()
}

fn do_replay(r: &Value) -> i32 {
    // re-executes the one recorded case through the same comparison the sweep uses
    let f = r["fn"].as_str().unwrap_or("");
    let u = |k: &str| r[k].as_u64().unwrap_or(0);
    let bytes = || crate::ev::unhex(r["bytes"].as_str().unwrap_or(""));
    let mut res = vec![];
    for _ in 0..2 {
        let out: Result<(String, String), String> = guarded(|| match f {
            "encode_literal_length" => (format!("{:?}", rz::encode_literal_length(u("value") as u32)), format!("{:?}", code_of(&LL_BASE, u("value") as u32).map(|(c, x, n)| (c, x, n as usize)).unwrap())),
            "encode_match_len" => (format!("{:?}", rz::encode_match_len(u("value") as u32)), format!("{:?}", code_of(&ML_BASE, u("value") as u32).map(|(c, x, n)| (c, x, n as usize)).unwrap())),
            "encode_offset" => (format!("{:?}", rz::encode_offset(u("value") as u32)), {
                let (c, x, n) = of_code(u("value") as u32);
                format!("{:?}", (c, x, n as usize))
            }),
            "encode_seqnum" => {
                let mut c = rz::encode_seqnum(u("value") as usize);
                c.push(0xA8);
                (format!("{:?}", zmodel::walker::parse_sequences_header(&c).map(|x| x.0)), format!("{:?}", Ok::<usize, String>(u("value") as usize)))
            }
            "lookup_ll_code" => (format!("{:?}", rz::lookup_ll_code(u("code") as u8)), format!("{:?}", LL_BASE[u("code") as usize])),
            "lookup_ml_code" => (format!("{:?}", rz::lookup_ml_code(u("code") as u8)), format!("{:?}", ML_BASE[u("code") as usize])),
            "parse_literals_header" => {
                let mut a = Acc::default();
                lit_header_case(&mut a, &bytes(), false);
                (a.viol.first().map(|v| v.what.clone()).unwrap_or_default(), String::new())
            }
            "do_offset_history" => {
                let h: Vec<u32> = r["history"].as_array().unwrap().iter().map(|x| x.as_u64().unwrap() as u32).collect();
                let mut g = [h[0], h[1], h[2]];
                let mut m = g;
                let o = rz::do_offset_history(u("offset_value") as u32, u("ll") as u32, &mut g);
                match zmodel::frame::resolve_offset(u("offset_value") as u32, u("ll") as u32, &mut m) {
                    Ok(w) => (format!("{o} {:?}", g), format!("{w} {:?}", m)),
                    Err(_) => (format!("{o}"), "0".to_string()),
                }
            }
            "read_block_header" => {
                let b = bytes();
                let i = b[0] as usize | (b[1] as usize) << 8 | (b[2] as usize) << 16;
                let (ty, size) = (((i >> 1) & 3) as u8, (i >> 3) as u32);
                let want = if ty == 3 || size as usize > MAX_BLOCK { "refused".to_string() } else { format!("{:?}", (i & 1 == 1, ty, if ty == 2 { 0 } else { size }, if ty == 1 { 1 } else { size })) };
                (rz::read_block_header(&b).map(|x| format!("{:?}", x)).unwrap_or("refused".into()), want)
            }
            "read_frame_header" => {
                let b = bytes();
                let mut m = b.clone();
                if m.len() > 4 {
                    m[4] &= !0x08;
                }
                (format!("{:?}", rz::read_frame_header(&b).ok().and_then(|g| g.window_size.ok().map(|w| (w, g.dictionary_id, g.frame_content_size, g.header_len as usize)))), format!("{:?}", zmodel::walker::parse_header(&m).ok().map(|h| (h.window_size, h.dict_id, h.fcs.unwrap_or(0), h.header_len))))
            }
            "parse_sequences_header" => {
                let b = bytes();
                (format!("{:?}", rz::parse_sequences_header(&b).ok().map(|(u, n, m)| (n as usize, m, u as usize))), format!("{:?}", zmodel::walker::parse_sequences_header(&b).ok()))
            }
            "serialize_frame_header" => {
                let b = rz::serialize_frame_header(None, false, r["checksum"].as_bool().unwrap_or(false), None, Some(u("window")));
                let ok = zmodel::walker::parse_header(&b).map(|h| h.window_size >= u("window") && h.header_len == b.len()).unwrap_or(false);
                (format!("{ok}"), "true".into())
            }
            "serialize_block_header" => {
                let b = rz::serialize_block_header(r["last"].as_bool().unwrap(), u("type") as u8, u("size") as u32);
                (hex(&b), hex(&(((u("size") as u32) << 3) | (u("type") as u32) << 1 | r["last"].as_bool().unwrap() as u32).to_le_bytes()[..3]))
            }
            "raw_literals" => {
                let b = rz::raw_literals(&vec![0u8; u("len") as usize]);
                (format!("{:?}", zmodel::walker::parse_literals_header(&b).ok().map(|x| (x.0, x.1))), format!("{:?}", Some((0u8, u("len") as usize))))
            }
            _ => ("unknown replay".into(), String::new()),
        });
        res.push(out);
    }
    println!("replay {f}: run 1 {:?}\n            run 2 {:?}", res[0], res[1]);
    if res[0] != res[1] {
        println!("NONDETERMINISTIC replay");
        return 2;
    }
    match &res[0] {
        Ok((got, want)) if got == want => {
            println!("implementation agrees with the specification on this case");
            0
        }
        _ => {
            println!("VIOLATION property=C14 replay=(given file)");
            1
        }
    }
}
