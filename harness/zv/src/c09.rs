//! C09 — dictionary frames decode correctly; a missing dictionary is an error.
use crate::c12::{merge, Acc};
use crate::ev::{hex, show, Run, Tier};
use crate::gen::{self, Arch, LitKind, ModeKind, Pattern};
use crate::meter::{self, guarded};
use crate::refz;
use ruzstd::decoding::errors::FrameDecoderError;
use ruzstd::decoding::{BlockDecodingStrategy as S, Dictionary, FrameDecoder};
use serde_json::{json, Value};
use zmodel::dict::Dict;
use zmodel::frame::*;

pub struct DictCase {
    pub name: String,
    pub raw: Vec<u8>,
    pub model: Dict,
}

fn samples(seed: u32, n: usize, len: usize) -> Vec<Vec<u8>> {
    let words = ["alpha", "beta", "gamma", "delta", "status=ok", "status=fail", "user_id=", "timestamp=", "GET /api/v1/", "POST /api/v1/", "\r\n", "{\"key\": \"", "\"}, ", "value"];
    let mut x = seed.wrapping_mul(2654435761) | 1;
    (0..n)
        .map(|_| {
            let mut s = Vec::new();
            while s.len() < len {
                x ^= x << 13;
                x ^= x >> 17;
                x ^= x << 5;
                s.extend_from_slice(words[(x as usize >> 3) % words.len()].as_bytes());
                if x % 5 == 0 {
                    s.extend_from_slice(format!("{}", x % 1000).as_bytes());
                }
            }
            s.truncate(len);
            s
        })
        .collect()
}

pub fn dictionaries() -> Result<Vec<DictCase>, String> {
    let mut v = vec![];
    for (i, (n, len, size)) in [(200usize, 60usize, 600usize), (400, 120, 4096), (1000, 200, 16384)].iter().enumerate() {
        let raw = refz::train_dict(&samples(i as u32 + 1, *n, *len), *size).map_err(|e| format!("ZDICT training failed: {e}"))?;
        let model = Dict::parse(&raw).map_err(|e| format!("the model cannot parse a ZDICT dictionary: {e}"))?;
        v.push(DictCase { name: format!("zdict {} bytes", raw.len()), raw, model });
    }
    for id in [77u32, 70000] {
        let model = gen::model_dict(id);
        let raw = model.serialize()?;
        v.push(DictCase { name: format!("model dictionary id {id}"), raw, model });
    }
    Ok(v)
}

fn inputs() -> Vec<Vec<u8>> {
    let s = samples(9, 40, 150);
    vec![vec![], b"x".to_vec(), s[0].clone(), s[1..6].concat(), s[..40].concat(), (0..3000u32).map(|i| (i.wrapping_mul(2654435761) >> 24) as u8).collect()]
}

/// inputs that embed the first / last n bytes of a dictionary's content, so that compressors emit matches at the
/// largest and smallest legal dictionary offsets
fn dict_inputs(d: &DictCase) -> Vec<Vec<u8>> {
    let c = &d.model.content;
    let mut v = vec![];
    for n in [16usize, 64, 300, 1000] {
        if c.len() >= n {
            for lead in [0usize, 1, 12] {
                let mut x: Vec<u8> = (0..lead).map(|i| 0xF0 + i as u8).collect();
                x.extend_from_slice(&c[..n]);
                x.extend_from_slice(b" -- tail -- ");
                x.extend_from_slice(&c[c.len() - n..]);
                v.push(x);
            }
        }
    }
    v
}

/// decode `frame` with the crate, the dictionary registered; `force` = frame carries no id
pub fn crate_decode(dec: &mut FrameDecoder, frame: &[u8], force: Option<u32>, limit: usize) -> Result<Vec<u8>, String> {
    match guarded(|| -> Result<Vec<u8>, String> {
        let mut src = frame;
        dec.reset(&mut src).map_err(|e| format!("{e:?}"))?;
        if let Some(id) = force {
            dec.force_dict(id).map_err(|e| format!("{e:?}"))?;
        }
        let mut out = vec![];
        while !dec.is_finished() {
            dec.decode_blocks(&mut src, S::UptoBlocks(1)).map_err(|e| format!("{e:?}"))?;
            if let Some(v) = dec.collect() {
                out.extend(v);
            }
            if out.len() > limit {
                return Err("harness output limit".into());
            }
        }
        if let Some(v) = dec.collect() {
            out.extend(v);
        }
        if !src.is_empty() {
            return Err(format!("{} bytes of the frame left unread", src.len()));
        }
        Ok(out)
    }) {
        Ok(r) => r,
        Err(p) => Err(format!("panic: {p}")),
    }
}

fn reference_matrix(run: &mut Run, dicts: &[DictCase], tier: Tier) {
    let th = meter::threads();
    let base_inputs = inputs();
    let per_dict: Vec<Vec<Vec<u8>>> = dicts.iter().map(|d| base_inputs.iter().cloned().chain(dict_inputs(d)).collect()).collect();
    let mut cases = vec![];
    for di in 0..dicts.len() {
        let ins = &per_dict[di];
        for level in tier.pick(vec![-3, 1, 3, 6, 9, 11, 12, 15], vec![-5, -3, 1, 2, 3, 4, 5, 6, 7, 8, 9, 10, 11, 12, 13, 15, 17, 19]) {
            for wl in [None, Some(10u32), Some(14), Some(17), Some(22)] {
                for idflag in [true, false] {
                    for ii in 0..ins.len() {
                        cases.push((di, level, wl, idflag, ii));
                    }
                }
            }
        }
    }
    let accs = meter::par_fold(cases.len(), th, Acc::default, |a, k| {
        let (di, level, wl, idflag, ii) = cases[k];
        let d = &dicts[di];
        let ins = &per_dict[di];
        a.evals += 1;
        let p = refz::CParams { level, window_log: wl, checksum: k % 2 == 0, content_size: k % 3 == 0, dict_id: idflag, ..Default::default() };
        let Ok(frame) = refz::compress(&ins[ii], &p, Some(&d.raw)) else {
            a.extra[1] += 1;
            return;
        };
        let rp = json!({"case": "reference", "dictionary": d.name, "params": format!("{:?}", p), "input_len": ins[ii].len(), "frame": show(&frame)});
        // binding: the walker with the model's parse of the dictionary must reproduce the input
        match zmodel::walker::walk(&frame, Some(&d.model)) {
            Ok(w) if w.plaintext == ins[ii] => a.extra[0] += 1,
            other => {
                a.bad("MODEL:dict_walker".into(), format!("MODEL ERROR: walker on a libzstd dictionary frame ({}, {:?}): {:?}", d.name, p, other.map(|w| w.plaintext.len())), rp);
                return;
            }
        }
        a.nontrivial += 1;
        let mut dec = FrameDecoder::new();
        let parsed = match guarded(|| Dictionary::decode_dict(&d.raw)) {
            Ok(Ok(x)) => x,
            other => {
                a.bad("dictionary:parse".into(), format!("decode_dict refuses / panics on a dictionary libzstd accepts ({}): {:?}", d.name, other.map(|r| r.map(|_| ()).map_err(|e| format!("{e:?}")))), rp);
                return;
            }
        };
        let id = parsed.id;
        dec.add_dict(parsed).unwrap();
        let has_id = zmodel::walker::parse_header(&frame).map(|h| h.dict_id.is_some()).unwrap_or(false);
        match crate_decode(&mut dec, &frame, if has_id { None } else { Some(id) }, ins[ii].len() + 1024) {
            Ok(out) if out == ins[ii] => {}
            other => a.bad(format!("reference:decode:{}", if has_id { "by_id" } else { "forced" }), format!("libzstd frame compressed with [{}] ({:?}, {} input bytes): {:?}", d.name, p, ins[ii].len(), other.map(|v| v.len())), rp.clone()),
        }
        // without the dictionary registered: a frame naming it must be refused with that id
        if has_id {
            let mut d2 = FrameDecoder::new();
            let r = d2.reset(frame.as_slice());
            if !matches!(&r, Err(FrameDecoderError::DictNotProvided { dict_id }) if *dict_id == id) {
                a.bad("missing_dictionary".into(), format!("frame naming dictionary {id} on a decoder without it: reset() = {:?}", r.map_err(|e| format!("{e:?}"))), rp);
            }
        }
    });
    let x = merge(run, "C09", "libzstd_dictionary_matrix", accs, false);
    run.set("reference_frames_validated_by_model", x[0]);
}

/// frames whose first block starts from the dictionary's tables and offsets
fn model_frames(run: &mut Run, dicts: &[DictCase]) {
    let th = meter::threads();
    let mut cases: Vec<(usize, Arch)> = vec![];
    for di in 0..dicts.len() {
        for lits in [LitKind::Treeless(1, 0), LitKind::Treeless(4, 1), LitKind::Raw(1), LitKind::Huff(1, 0, false)] {
            for pattern in [Pattern::One, Pattern::SameCodes, Pattern::Repeats, Pattern::Overlap, Pattern::None] {
                for a in [ModeKind::Rep, ModeKind::Pre, ModeKind::Fse] {
                    for b in [ModeKind::Rep, ModeKind::Pre, ModeKind::Rle] {
                        for c in [ModeKind::Rep, ModeKind::Pre, ModeKind::Fse] {
                            cases.push((di, Arch::Comp { lits, count_form: 1, modes: [a, b, c], pattern }));
                        }
                    }
                }
            }
        }
    }
    let accs = meter::par_fold(cases.len(), th, Acc::default, |a, k| {
        let (di, arch) = cases[k];
        let d = &dicts[di];
        let st = gen::GenState::new(Some(&d.model));
        let Some(b) = gen::make_block(arch, &st) else { return };
        a.evals += 1;
        let idw = if d.model.id < 256 { 1 } else if d.model.id < 65536 { 2 } else { 4 };
        let spec = FrameSpec { header: Header { window_desc: Some(13 << 3), dict_id: Some((idw, d.model.id)), checksum: k % 2 == 0, ..Default::default() }, blocks: vec![b, Block::Raw(b"end".to_vec())] };
        let Some((frame, want)) = realize(&spec, Some(&d.model)) else {
            a.extra[1] += 1;
            return;
        };
        let rp = json!({"case": "model_frame", "dictionary": d.name, "arch": format!("{:?}", arch), "frame": hex(&frame)});
        match refz::decode_with_dict(&frame, &d.raw) {
            Ok(p) if p == want => a.extra[0] += 1,
            Ok(p) => {
                a.bad("MODEL:dict_frame".into(), format!("MODEL ERROR: libzstd with [{}] decodes {:?} to {} bytes differing from the executor's {}", d.name, arch, p.len(), want.len()), rp);
                return;
            }
            Err(_) => {
                a.extra[2] += 1; // not valid per reference
                return;
            }
        }
        a.nontrivial += 1;
        let mut dec = FrameDecoder::new();
        dec.add_dict(Dictionary::decode_dict(&d.raw).unwrap()).unwrap();
        match crate_decode(&mut dec, &frame, None, want.len() + 1024) {
            Ok(out) if out == want => {}
            other => a.bad(format!("model_frame:{:?}", arch).chars().take(90).collect(), format!("frame starting from the state of [{}] ({:?}): {:?}, expected {} bytes", d.name, arch, other.map(|v| v.len()), want.len()), rp),
        }
    });
    let x = merge(run, "C09", "first_block_uses_dictionary_state", accs, false);
    run.set("model_frames_validated_by_reference", x[0]);
    run.set("model_frames_not_valid_per_reference", x[2]);
}

/// the dictionary / output seam: (output position, reach into the dictionary, match length)
fn lattice(run: &mut Run, dicts: &[DictCase], tier: Tier) {
    let th = meter::threads();
    let d = dicts.iter().find(|d| d.name.starts_with("model")).unwrap();
    let dl = d.model.content.len();
    let mut cases = vec![];
    for p in 0..=tier.pick(16usize, 24) {
        for ll in [0usize, 2] {
            for r in 1..=dl + 1 {
                for ml in 3..=tier.pick(20usize, 40) {
                    cases.push((p, ll, r, ml));
                }
            }
        }
    }
    let accs = meter::par_fold(cases.len(), th, Acc::default, |a, k| {
        let (p, ll, r, ml) = cases[k];
        a.evals += 1;
        let mut blocks = vec![];
        if p > 0 {
            blocks.push(Block::Raw((0..p).map(|i| 0xA0 + i as u8).collect()));
        }
        let off = p + ll + r; // reaches r bytes into the dictionary
        blocks.push(Block::Compressed { lits: Lits::Raw((0..ll + 1).map(|i| 0x10 + i as u8).collect(), 0), count_form: 1, modes: pre(), seqs: vec![Seq { ll: ll as u32, ml: ml as u32, of: 3 + off as u32 }], pick: 0 });
        let header = Header { window_desc: Some(0), dict_id: Some((1, d.model.id)), ..Default::default() };
        let spec = FrameSpec { header: header.clone(), blocks: blocks.clone() };
        let rp = json!({"case": "lattice", "position": p, "ll": ll, "reach": r, "ml": ml});
        let mut dec = FrameDecoder::new();
        dec.add_dict(Dictionary::decode_dict(&d.raw).unwrap()).unwrap();
        if r <= dl {
            let Some((frame, want)) = realize(&spec, Some(&d.model)) else { return };
            match refz::decode_with_dict(&frame, &d.raw) {
                Ok(x) if x == want => a.extra[0] += 1,
                other => {
                    a.bad("MODEL:lattice".into(), format!("MODEL ERROR: libzstd on lattice point {:?}: {:?}", (p, ll, r, ml), other.map(|v| v.len())), rp);
                    return;
                }
            }
            a.nontrivial += 1;
            match crate_decode(&mut dec, &frame, None, 4096) {
                Ok(out) if out == want => {}
                other => a.bad(format!("lattice:{}", if ml > r { "crosses_seam" } else if ml == r { "ends_at_seam" } else { "inside_dictionary" }), format!("match starting {r} bytes before the end of the {dl}-byte dictionary, length {ml}, at output position {}: {:?} (expected {:?})", p + ll, other.map(|v| hex(&v)), hex(&want)), rp),
            }
        } else {
            // one past dictionary + output: must be rejected (the spec executor refuses it too)
            let mut st = EncState::from_dict(&d.model);
            let Ok(body) = encode_blocks(&blocks, &mut st) else { return };
            let mut frame = encode_header(&header).unwrap();
            frame.extend(body);
            // (libzstd 1.5.7 happens to read the dictionary's entropy section for such offsets; the property, not the
            // reference, defines this rejection, so the reference is only counted here)
            if refz::decode_with_dict(&frame, &d.raw).is_ok() {
                a.extra[3] += 1;
            }
            a.nontrivial += 1;
            match crate_decode(&mut dec, &frame, None, 4096) {
                Ok(out) => a.bad("lattice:beyond_accepted".into(), format!("offset {off} reaches one byte beyond dictionary ({dl}) + output ({}) and was accepted ({} bytes delivered)", p + ll, out.len()), rp),
                Err(e) if e.starts_with("panic:") => a.bad("lattice:beyond_panics".into(), format!("offset {off} reaches one byte beyond dictionary ({dl}) + output ({}): {e}", p + ll), rp),
                Err(_) => {}
            }
        }
    });
    let x = merge(run, "C09", "dictionary_output_seam_lattice", accs, true);
    run.add("model_frames_validated_by_reference", x[0]);
    run.set("beyond_dictionary_offsets_the_reference_tolerates", x[3]);
}

/// The dictionary stays reachable while the output is within the window. Frames with a 1 KiB window whose first
/// match starts in the dictionary and spills a long way into the output, followed - in a second block, at output
/// position W-2, W-1 or exactly W - by another match into the dictionary: valid (libzstd decodes each of them), so
/// the crate must decode them too. Whatever bookkeeping decides "still within the window" must count every output
/// byte exactly once.
fn window_edge(run: &mut Run, dicts: &[DictCase]) {
    let th = meter::threads();
    let d = dicts.iter().find(|d| d.name.starts_with("model")).unwrap();
    let dl = d.model.content.len();
    const W: usize = 1024;
    let mut cases = vec![];
    for spill in [0usize, 1, 50, 500, 900] {
        for r in [1usize, dl / 2 + 1, dl] {
            for p2 in [W - 2, W - 1, W] {
                for r2 in [1usize, dl] {
                    if r + spill <= p2 && r + spill >= 3 {
                        cases.push((spill, r, p2, r2));
                    }
                }
            }
        }
    }
    let accs = meter::par_fold(cases.len(), th, Acc::default, |a, k| {
        let (spill, r, p2, r2) = cases[k];
        a.evals += 1;
        let ml1 = r + spill;
        let tail: Vec<u8> = (0..p2 - ml1).map(|i| (i * 7 + 3) as u8).collect();
        let blocks = vec![
            Block::Compressed { lits: Lits::Raw(tail.clone(), if tail.len() < 32 { 0 } else { 1 }), count_form: 1, modes: pre(), seqs: vec![Seq { ll: 0, ml: ml1 as u32, of: 3 + r as u32 }], pick: 0 },
            Block::Compressed { lits: Lits::Raw(vec![], 0), count_form: 1, modes: pre(), seqs: vec![Seq { ll: 0, ml: 3, of: 3 + (p2 + r2) as u32 }], pick: 0 },
        ];
        let header = Header { window_desc: Some(0), dict_id: Some((1, d.model.id)), ..Default::default() };
        let rp = json!({"case": "window_edge", "first_match_reach": r, "spill_into_output": spill, "second_match_at_output_position": p2, "second_match_reach": r2});
        let Some((frame, want)) = realize(&FrameSpec { header, blocks }, Some(&d.model)) else {
            a.bad("MODEL:window_edge:unrealisable".into(), format!("MODEL ERROR: window-edge frame {:?} cannot be realised", (spill, r, p2, r2)), rp);
            return;
        };
        match refz::decode_with_dict(&frame, &d.raw) {
            Ok(x) if x == want => a.extra[0] += 1,
            other => {
                a.bad("MODEL:window_edge".into(), format!("MODEL ERROR: libzstd on window-edge frame {:?}: {:?}", (spill, r, p2, r2), other.map(|v| v.len())), rp);
                return;
            }
        }
        a.nontrivial += 1;
        let mut dec = FrameDecoder::new();
        dec.add_dict(Dictionary::decode_dict(&d.raw).unwrap()).unwrap();
        match crate_decode(&mut dec, &frame, None, 8192) {
            Ok(out) if out == want => {}
            other => a.bad(format!("window_edge:{}", if spill == 0 { "no_spill" } else { "after_spill" }), format!("a match {r} bytes into the dictionary spilling {spill} bytes into the output, then at output position {p2} (window {W}) a match {r2} bytes into the dictionary - valid, libzstd decodes it: {:?}", other.map(|v| v.len())), rp),
        }
    });
    let x = merge(run, "C09", "dictionary_reach_at_the_window_edge", accs, true);
    run.add("model_frames_validated_by_reference", x[0]);

    // the same question as a small complete lattice right at the edge: P literal bytes (in a compressed block, so
    // that they are output the decoder counts), then a match r1 bytes into the dictionary of length ml1 (inside,
    // ending at, or crossing the seam), then at once a second match into the dictionary - for every P such that
    // the second match starts at W-11 ..= W
    let mut cases = vec![];
    for p in W - 14..=W - 3 {
        for r1 in [1usize, 2, dl / 2 + 1, dl] {
            for ml1 in 3..=12usize {
                for r2 in [1usize, dl] {
                    if p + ml1 <= W {
                        cases.push((p, r1, ml1, r2));
                    }
                }
            }
        }
    }
    let accs = meter::par_fold(cases.len(), th, Acc::default, |a, k| {
        let (p, r1, ml1, r2) = cases[k];
        a.evals += 1;
        let lits: Vec<u8> = (0..p).map(|i| (i * 11 + 5) as u8).collect();
        let blocks = vec![
            Block::Compressed { lits: Lits::Raw(lits, 1), count_form: 1, modes: pre(), seqs: vec![], pick: 0 },
            Block::Compressed { lits: Lits::Raw(vec![], 0), count_form: 1, modes: pre(), seqs: vec![Seq { ll: 0, ml: ml1 as u32, of: 3 + (p + r1) as u32 }, Seq { ll: 0, ml: 3, of: 3 + (p + ml1 + r2) as u32 }], pick: 0 },
        ];
        let header = Header { window_desc: Some(0), dict_id: Some((1, d.model.id)), ..Default::default() };
        let rp = json!({"case": "window_edge_lattice", "literals_before": p, "first_match_reach": r1, "first_match_length": ml1, "second_match_reach": r2});
        let Some((frame, want)) = realize(&FrameSpec { header, blocks }, Some(&d.model)) else {
            a.bad("MODEL:window_edge_lattice:unrealisable".into(), format!("MODEL ERROR: edge lattice frame {:?} cannot be realised", (p, r1, ml1, r2)), rp);
            return;
        };
        match refz::decode_with_dict(&frame, &d.raw) {
            Ok(x) if x == want => a.extra[0] += 1,
            other => {
                a.bad("MODEL:window_edge_lattice".into(), format!("MODEL ERROR: libzstd on edge lattice frame {:?}: {:?}", (p, r1, ml1, r2), other.map(|v| v.len())), rp);
                return;
            }
        }
        a.nontrivial += 1;
        let mut dec = FrameDecoder::new();
        dec.add_dict(Dictionary::decode_dict(&d.raw).unwrap()).unwrap();
        match crate_decode(&mut dec, &frame, None, 8192) {
            Ok(out) if out == want => {}
            other => a.bad(format!("window_edge_lattice:{}", if ml1 > r1 { "first_crosses_seam" } else { "first_inside_dictionary" }), format!("{p} literals, a match {r1} bytes into the dictionary of length {ml1}, then at output position {} (window {W}) a match {r2} bytes into the dictionary - valid, libzstd decodes it: {:?}", p + ml1, other.map(|v| v.len())), rp),
        }
    });
    let x = merge(run, "C09", "dictionary_reach_window_edge_lattice", accs, true);
    run.add("model_frames_validated_by_reference", x[0]);
}

/// for C18: two dictionaries and a small set of frames (dictionary frames incl. two that reach the dictionary at the
/// window edge, plain frames, frames that are invalid unless state leaked, an unregistered id) whose histories on one
/// decoder must give the same outcomes in every feature build
pub fn history_world() -> Result<(Vec<Vec<u8>>, Vec<(String, Vec<u8>)>), String> {
    let dicts = dictionaries()?;
    let data = inputs()[3].clone();
    let da = &dicts[0];
    let db = dicts.iter().find(|d| d.name.starts_with("model")).unwrap();
    let mut frames: Vec<(String, Vec<u8>)> = vec![];
    frames.push(("libzstd frame with the trained dictionary".into(), refz::compress(&data, &refz::CParams { level: 3, dict_id: true, checksum: true, ..Default::default() }, Some(&da.raw))?));
    let st = gen::GenState::new(Some(&db.model));
    let b = gen::make_block(Arch::Comp { lits: LitKind::Treeless(1, 0), count_form: 1, modes: [ModeKind::Rep; 3], pattern: Pattern::Repeats }, &st).ok_or("treeless/repeat block")?;
    frames.push(("model frame starting from the model dictionary's tables".into(), realize(&FrameSpec { header: Header { window_desc: Some(0), dict_id: Some((1, db.model.id)), checksum: true, ..Default::default() }, blocks: vec![b] }, Some(&db.model)).ok_or("frame b")?.0));
    frames.push(("plain two-block frame".into(), crate::seeds::windowed(true, 2).frame));
    frames.push(("plain six-block frame (several windows of output)".into(), crate::seeds::windowed(false, 6).frame));
    // dictionary reach at the window edge (valid): sensitive to any output accounting that survives a reset
    let dl = db.model.content.len();
    for (spill, p2) in [(500usize, 1024usize), (0, 1023)] {
        let ml1 = dl + spill;
        let tail: Vec<u8> = (0..p2 - ml1).map(|i| (i * 7 + 3) as u8).collect();
        let blocks = vec![
            Block::Compressed { lits: Lits::Raw(tail.clone(), if tail.len() < 32 { 0 } else { 1 }), count_form: 1, modes: pre(), seqs: vec![Seq { ll: 0, ml: ml1 as u32, of: 3 + dl as u32 }], pick: 0 },
            Block::Compressed { lits: Lits::Raw(vec![], 0), count_form: 1, modes: pre(), seqs: vec![Seq { ll: 0, ml: 3, of: 3 + (p2 + 1) as u32 }], pick: 0 },
        ];
        let header = Header { window_desc: Some(0), dict_id: Some((1, db.model.id)), ..Default::default() };
        frames.push((format!("model dictionary frame reaching the dictionary at output position {p2} of a 1 KiB window (spill {spill})"), realize(&FrameSpec { header, blocks }, Some(&db.model)).ok_or("edge frame")?.0));
    }
    // invalid unless state leaked
    let b = gen::make_block(Arch::Comp { lits: LitKind::Treeless(1, 0), count_form: 1, modes: [ModeKind::Rep; 3], pattern: Pattern::One }, &st).ok_or("leak probe block")?;
    let mut st2 = EncState::from_dict(&db.model);
    let mut f = encode_header(&Header::window(0, false)).unwrap();
    f.extend(encode_blocks(&[b], &mut st2)?);
    frames.push(("plain frame decodable only with leaked tables".into(), f));
    let mut st3 = EncState::default();
    let mut f = encode_header(&Header::window(0, false)).unwrap();
    f.extend(encode_blocks(&[Block::Compressed { lits: Lits::Raw(b"abcd".to_vec(), 0), count_form: 1, modes: pre(), seqs: vec![Seq { ll: 2, ml: 4, of: 3 + 5 }], pick: 0 }], &mut st3)?);
    frames.push(("plain frame decodable only with leaked dictionary content".into(), f));
    let mut f = frames[1].1.clone();
    f[6] = 0xEE;
    frames.push(("frame naming an unregistered dictionary".into(), f));
    Ok((vec![da.raw.clone(), db.raw.clone()], frames))
}

/// mixes of dictionary frames and plain frames on one decoder vs fresh decoders
fn histories(run: &mut Run, dicts: &[DictCase], tier: Tier) {
    let th = meter::threads();
    let data = inputs()[3].clone();
    let da = &dicts[0];
    let db = dicts.iter().find(|d| d.name.starts_with("model")).unwrap();
    let fa = refz::compress(&data, &refz::CParams { level: 3, dict_id: true, checksum: true, ..Default::default() }, Some(&da.raw)).unwrap();
    let fb = {
        let st = gen::GenState::new(Some(&db.model));
        let b = gen::make_block(Arch::Comp { lits: LitKind::Treeless(1, 0), count_form: 1, modes: [ModeKind::Rep; 3], pattern: Pattern::Repeats }, &st).expect("treeless/repeat block from the model dictionary");
        realize(&FrameSpec { header: Header { window_desc: Some(0), dict_id: Some((1, db.model.id)), checksum: true, ..Default::default() }, blocks: vec![b] }, Some(&db.model)).expect("frame b")
    };
    let plain = crate::seeds::windowed(true, 2);
    // a plain frame that is INVALID without leaked state: first block treeless + repeat modes + repeat offsets
    let leak_probe = {
        let st = gen::GenState::new(Some(&db.model));
        let b = gen::make_block(Arch::Comp { lits: LitKind::Treeless(1, 0), count_form: 1, modes: [ModeKind::Rep; 3], pattern: Pattern::One }, &st).unwrap();
        let mut st2 = EncState::from_dict(&db.model);
        let body = encode_blocks(&[b], &mut st2).unwrap();
        let mut f = encode_header(&Header::window(0, false)).unwrap();
        f.extend(body);
        f
    };
    // a plain frame whose match reaches before its first byte (decodable only if dictionary content leaked)
    let reach_probe = {
        let mut st = EncState::default();
        let body = encode_blocks(&[Block::Compressed { lits: Lits::Raw(b"abcd".to_vec(), 0), count_form: 1, modes: pre(), seqs: vec![Seq { ll: 2, ml: 4, of: 3 + 5 }], pick: 0 }], &mut st).unwrap();
        let mut f = encode_header(&Header::window(0, false)).unwrap();
        f.extend(body);
        f
    };
    #[derive(Clone, Copy, Debug)]
    enum It {
        A,
        B,
        Plain,
        LeakProbe,
        ReachProbe,
        Unknown,
    }
    let items = [It::A, It::B, It::Plain, It::LeakProbe, It::ReachProbe, It::Unknown];
    let unknown = {
        let mut f = fb.0.clone();
        f[6] = 0xEE; // another dictionary id
        f
    };
    let depth = tier.pick(4u32, 5);
    let total = items.len().pow(depth);
    let decode_one = |dec: &mut FrameDecoder, it: It| -> String {
        let (frame, limit): (&[u8], usize) = match it {
            It::A => (&fa, data.len() + 64),
            It::B => (&fb.0, fb.1.len() + 64),
            It::Plain => (&plain.frame, plain.plain.len() + 64),
            It::LeakProbe => (&leak_probe, 4096),
            It::ReachProbe => (&reach_probe, 4096),
            It::Unknown => (&unknown, 4096),
        };
        match crate_decode(dec, frame, None, limit) {
            Ok(v) => format!("ok:{}", hex(&v[..v.len().min(64)]) + &format!(":{}:{:x}", v.len(), zmodel::xxh::xxh64(&v))),
            Err(e) => format!("err:{}", e.split('(').next().unwrap_or("").split('{').next().unwrap_or("")),
        }
    };
    let fresh = || {
        let mut d = FrameDecoder::new();
        d.add_dict(Dictionary::decode_dict(&da.raw).unwrap()).unwrap();
        d.add_dict(Dictionary::decode_dict(&db.raw).unwrap()).unwrap();
        d
    };
    // reference outcomes on fresh decoders, and their sanity
    let refs: Vec<String> = items.iter().map(|&it| decode_one(&mut fresh(), it)).collect();
    let expect_ok = [Some(&data), Some(&fb.1), Some(&plain.plain), None, None, None];
    for (i, e) in expect_ok.iter().enumerate() {
        let ok = match e {
            Some(p) => refs[i] == format!("ok:{}", hex(&p[..p.len().min(64)]) + &format!(":{}:{:x}", p.len(), zmodel::xxh::xxh64(p))),
            None => refs[i].starts_with("err:"),
        };
        if !ok {
            run.violation(crate::ev::Violation { identity: format!("history:fresh:{:?}", items[i]), what: format!("on a fresh decoder with both dictionaries registered, {:?} gives {} ({})", items[i], crate::ev::truncate(&refs[i], 120), if e.is_some() { "expected the content" } else { "expected an error: the frame is invalid without leaked state / names an unregistered dictionary" }), replay: json!({"case": "history", "items": [format!("{:?}", items[i])]}) });
        }
    }
    let accs = meter::par_fold(total, th, Acc::default, |a, mut k| {
        let mut seq = vec![];
        for _ in 0..depth {
            seq.push(k % items.len());
            k /= items.len();
        }
        a.evals += 1;
        a.nontrivial += 1;
        let mut dec = fresh();
        for (pos, &i) in seq.iter().enumerate() {
            let got = decode_one(&mut dec, items[i]);
            if got != refs[i] {
                let h: Vec<String> = seq[..=pos].iter().map(|&j| format!("{:?}", items[j])).collect();
                a.bad(format!("history:{:?}_after_{}", items[i], if pos == 0 { "nothing".to_string() } else { format!("{:?}", items[seq[pos - 1]]) }), format!("history {:?}: the last frame gives {} on the reused decoder but {} on a fresh one", h, crate::ev::truncate(&got, 100), crate::ev::truncate(&refs[i], 100)), json!({"case": "history", "items": h}));
                return;
            }
        }
    });
    merge(run, "C09", &format!("dictionary_mix_histories_depth{depth}"), accs, true);
}

pub fn main(tier: Tier, replay: Option<Value>) -> i32 {
    if replay.is_some() {
        println!("C09 replays are case descriptions; rerun ./check C09");
        return 2;
    }
    let mut run = Run::new("C09", "exploration", tier);
    let dicts = match dictionaries() {
        Ok(d) => d,
        Err(e) => {
            run.machinery_error(e);
            return run.finish();
        }
    };
    // binding of the model dictionaries: libzstd must accept them
    for d in &dicts {
        let f = refz::compress(b"hello hello hello", &refz::CParams { level: 3, dict_id: true, ..Default::default() }, Some(&d.raw));
        match f.and_then(|f| refz::decode_with_dict(&f, &d.raw)) {
            Ok(p) if p == b"hello hello hello" => {}
            other => run.machinery_error(format!("libzstd does not work with dictionary [{}]: {:?}", d.name, other.map(|v| v.len()))),
        }
    }
    run.set("dictionaries", json!(dicts.iter().map(|d| format!("{} (id {}, content {} bytes, offsets {:?})", d.name, d.model.id, d.model.content.len(), d.model.rep)).collect::<Vec<_>>()));
    reference_matrix(&mut run, &dicts, tier);
    model_frames(&mut run, &dicts);
    lattice(&mut run, &dicts, tier);
    window_edge(&mut run, &dicts);
    histories(&mut run, &dicts, tier);
    run.set("exhaustive", false);
    run.set("rule", "3 ZDICT-trained and 2 model-built dictionaries; libzstd frames over levels x windowLog x dictID flag x 6 inputs decoded by id and by force_dict, and refused with the right id when the dictionary is missing; model frames whose first block is treeless / uses Repeat for each table / every repeat-offset code so that the dictionary's tables and offsets are the starting state (each validated by libzstd with the dictionary); the complete seam lattice (output position 0..=16/24 x literal run {0,2} x reach 1..=dict_len+1 x match length 3..=20/40) incl. the one-past offset that must be rejected; dictionary reach at the window edge (first match spilling 0..900 bytes from the dictionary into the output, a second match into the dictionary at output position W-2 / W-1 / W of a 1 KiB window); every history of 4/5 items over {frame with dictionary A, frame with dictionary B, plain frame, plain frame that needs leaked tables, plain frame that needs leaked content, unregistered id} on one decoder vs fresh decoders");
    run.sample(json!({"case": "lattice", "position": 3, "ll": 2, "reach": 4, "ml": 9, "meaning": "match starts 4 bytes before the end of the dictionary, crosses into the 5 output bytes and overlaps itself"}));
    run.assume("libzstd 1.5.7 (ZDICT trainer and decoder) defines valid dictionaries and frames");
    run.finish()
}
