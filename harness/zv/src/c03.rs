//! C03 — no input can make decoding panic, corrupt memory or hang. Deviation-bounded fault enumeration on
//! seed frames plus complete byte-level spaces behind a valid prefix, run in memory-capped worker processes
//! with a per-case watchdog; after every error the legal epilogue (drain, query, reset onto a good frame).
use crate::ev::{hex, show, Run, Tier, Violation};
use crate::fe::{self, End};
use crate::meter;
use crate::pool::{self, WorkerArgs};
use crate::seeds::{self, Seed};
use ruzstd::decoding::FrameDecoder;
use serde_json::{json, Value};

pub enum Fam {
    /// every strict prefix of a seed
    Trunc(usize),
    /// every position x every replacement value from the list
    Byte(usize, Vec<u8>),
    /// every pair of positions x reduced values (small seeds)
    Pair(usize),
    /// all 2^24 block headers x body shape
    BlockHeaders(usize),
    /// all byte strings of length <= k behind a prefix kind
    Strings(u8, usize),
    /// every direct weight vector of <= n weights
    DirectWeights(usize),
    /// hand-built hostile frames
    Hostile,
    /// dictionary faults: (dictionary index, kind 0 truncation / 1 byte)
    Dict(usize, u8),
}

pub struct Space {
    pub seeds: Vec<Seed>,
    pub fams: Vec<(Fam, u64)>,
    pub hostile: Vec<(String, Vec<u8>)>,
    pub dicts: Vec<Vec<u8>>,
    pub dict_frames: Vec<Vec<u8>>,
    pub good: Seed,
    /// frames decoded completely on the same decoder BEFORE the case (reused-decoder variant): they leave
    /// Huffman tables of both description kinds, FSE tables and RLE symbols behind
    pub prologues: Vec<Vec<u8>>,
}

const VALS5: [u8; 5] = [0x00, 0xFF, 0x01, 0x80, 0x7F];
const PAIRVALS: [u8; 3] = [0x00, 0xFF, 0x01];

fn strings_count(k: usize) -> u64 {
    (0..=k).map(|l| 256u64.pow(l as u32)).sum()
}
fn nth_string(mut i: u64, k: usize) -> Vec<u8> {
    for l in 0..=k {
        let n = 256u64.pow(l as u32);
        if i < n {
            return (0..l).map(|j| (i >> (8 * j)) as u8).collect();
        }
        i -= n;
    }
    unreachable!()
}

fn frame_with_body(body: &[u8]) -> Vec<u8> {
    let mut f = vec![0x28, 0xB5, 0x2F, 0xFD, 0x00, 0x00];
    f.extend(&((body.len() as u32) << 3 | 2 << 1 | 1).to_le_bytes()[..3]);
    f.extend(body);
    f
}

/// body for a string placed at one of the sensitive positions
fn body_for(kind: u8, s: &[u8]) -> Vec<u8> {
    match kind {
        0 => s.to_vec(),
        1..=3 => {
            // FSE table description for LL / OF / ML
            let modes = [0x80u8, 0x20, 0x08][kind as usize - 1];
            let mut b = vec![0x00, 0x01, modes];
            b.extend(s);
            b.extend(&[0x01, 0x80]);
            b
        }
        4 => {
            // Huffman weights, FSE-compressed: header byte = declared size, then the string
            let mut lit = vec![s.len() as u8];
            lit.extend(s);
            lit.push(0x01);
            let (regen, comp) = (2u32, lit.len() as u32);
            let v = 2u32 | regen << 4 | comp << 14;
            let mut b = v.to_le_bytes()[..3].to_vec();
            b.extend(lit);
            b.push(0);
            b
        }
        6 => {
            // arbitrary weights header byte (first byte of the string) followed by the rest
            let mut lit = s.to_vec();
            lit.push(0x01);
            let v = 2u32 | 3u32 << 4 | (lit.len() as u32) << 14;
            let mut b = v.to_le_bytes()[..3].to_vec();
            b.extend(lit);
            b.push(0);
            b
        }
        _ => {
            // literals-section header prefix followed by filler
            let mut b = s.to_vec();
            b.extend(&[0x55; 8]);
            b
        }
    }
}

fn hostile_frames() -> Vec<(String, Vec<u8>)> {
    use zmodel::frame::*;
    let mut v: Vec<(String, Vec<u8>)> = vec![];
    let hdr = [0x28u8, 0xB5, 0x2F, 0xFD, 0x00, 0x00];
    let mk = |blocks: Vec<Block>| -> Option<Vec<u8>> { encode_frame(&FrameSpec { header: Header::window(0, false), blocks }, None).ok() };
    // amplification: all-RLE sequence tables, match-length code 52, 16 set extra bits per sequence
    for n in [1usize, 2, 1000, 2000, 33000] {
        let mut f = hdr.to_vec();
        f.extend(&[0x20, 0x00, 0x00]);
        f.extend(b"abcd"); // raw block "abcd"
        let mut body = vec![0x00];
        if n < 128 {
            body.push(n as u8);
        } else if n < 0x7F00 {
            body.push(0x80 | (n >> 8) as u8);
            body.push(n as u8);
        } else {
            body.push(0xFF);
            body.extend(((n - 0x7F00) as u16).to_le_bytes());
        }
        body.extend(&[0x54, 0, 0, 52]);
        for _ in 0..n {
            body.extend(&[0xFF, 0xFF]);
        }
        body.push(0x01);
        f.extend(&((body.len() as u32) << 3 | 2 << 1 | 1).to_le_bytes()[..3]);
        f.extend(body);
        v.push((format!("amplification: {n} sequences of match length 131074"), f));
    }
    // RLE literals with the 20-bit size field at its maximum
    v.push(("rle literals 2^20-1".into(), frame_with_body(&[0x01 | 3 << 2 | 0xF0, 0xFF, 0xFF, 0x41, 0x00])));
    // offsets one past the output, zero-history repeat offsets, rep1-1 with rep1 = 1
    for (name, seqs) in [("offset one past output", vec![Seq { ll: 2, ml: 3, of: 3 + 3 }]), ("repeat offset 2 on empty history", vec![Seq { ll: 0, ml: 3, of: 1 }]), ("rep1-1 = 0", vec![Seq { ll: 1, ml: 3, of: 3 + 1 }, Seq { ll: 0, ml: 3, of: 3 }])] {
        // built by hand because the spec encoder refuses invalid offsets only at execution
        let spec = FrameSpec { header: Header::window(0, false), blocks: vec![Block::Compressed { lits: Lits::Raw(vec![1, 2, 3, 4], 0), count_form: 1, modes: pre(), seqs, pick: 0 }] };
        let mut st = EncState::default();
        if let Ok(b) = encode_blocks(&spec.blocks, &mut st) {
            let mut f = encode_header(&spec.header).unwrap();
            f.extend(b);
            v.push((name.into(), f));
        }
    }
    // treeless literals / repeat modes with nothing to repeat
    v.push(("treeless first block".into(), frame_with_body(&[0x03 | 2 << 4, 0x40, 0x00, 0x81, 0x00])));
    for (name, modes) in [("repeat LL first block", 0xC0u8), ("repeat OF first block", 0x30), ("repeat ML first block", 0x0C), ("all repeat first block", 0xFC)] {
        v.push((name.into(), frame_with_body(&[0x00, 0x01, modes, 0x01, 0x80])));
    }
    // RLE symbols at and beyond the alphabet end
    for (name, modes, sym) in [("rle LL 36", 0x40u8, 36u8), ("rle OF 32", 0x10, 32), ("rle ML 53", 0x04, 53), ("rle OF 31", 0x10, 31), ("rle LL 255", 0x40, 255)] {
        v.push((name.into(), frame_with_body(&[0x00, 0x01, modes, sym, 0xFF, 0xFF, 0xFF, 0xFF, 0xFF, 0xFF, 0xFF, 0x01])));
    }
    // Huffman weights described through FSE can take values a direct description cannot (every value 0..=255 is a
    // symbol of the weights' table): literals sections whose tree description names a weight of 12, 16, 32, 33, 64, 255
    for x in [12u16, 16, 32, 33, 64, 255] {
        let head = vec![1u8, 1, 2, x as u8];
        let mut dist = vec![0i16; x as usize + 1];
        dist[1] = 30;
        dist[2] = 16;
        dist[x as usize] += 18;
        if let Some(desc) = zmodel::huf::describe_fse(&head, &dist, 6) {
            // compressed literals, one stream, regenerated 8, compressed size = description + 2 stream bytes
            let comp = desc.len() + 2;
            // header: type 2, size format 0 (one stream, 10-bit sizes): [type:2][format:2][regenerated:10][compressed:10]
            let mut body = vec![0x02 | ((8 & 0xF) << 4) as u8, ((8 >> 4) & 0x3F) as u8 | ((comp & 3) << 6) as u8, (comp >> 2) as u8];
            body.extend(&desc);
            body.extend(&[0xFF, 0x01]);
            body.push(0x00);
            v.push((format!("FSE-described Huffman weight {x}"), frame_with_body(&body)));
        }
    }
    // a weights table with a single symbol of full probability: every state decodes it with zero bits, the decoder's
    // weight loop never consumes anything - only its count limit ends it
    for (name, dist) in [("weight 0 only", vec![64i16]), ("weight 1 only", vec![0i16, 64]), ("weight 0 nearly only", vec![63i16, 1])] {
        for stream in [vec![0x01u8], vec![0x80], vec![0xFF, 0xFF, 0x01]] {
            let mut desc_body = zmodel::fse::describe(&dist, 6);
            desc_body.extend(&stream);
            let mut desc = vec![desc_body.len() as u8];
            desc.extend(desc_body);
            let comp = desc.len() + 2;
            let mut body = vec![0x02 | ((8 & 0xF) << 4) as u8, ((8 >> 4) & 0x3F) as u8 | ((comp & 3) << 6) as u8, (comp >> 2) as u8];
            body.extend(&desc);
            body.extend(&[0xFF, 0x01]);
            body.push(0x00);
            v.push((format!("FSE weights table with {name}, stream {stream:02x?}"), frame_with_body(&body)));
        }
    }
    // jump table pointing past the streams; four streams with almost no data
    v.push(("jump table past end".into(), frame_with_body(&[0x02 | 1 << 2 | 8 << 4, 0x00 | 9 << 6, 0x02, 0x81, 0x11, 0xFF, 0xFF, 0xFF, 0xFF, 0xFF, 0xFF, 0x00])));
    // sequence count far above what the bit stream holds
    v.push(("sequence count 0x17EFF, 1 byte of bits".into(), frame_with_body(&[0x00, 0xFF, 0xFF, 0xFF, 0x00, 0x01])));
    // valid multi-block frame followed by a block with reserved type / oversize size field
    if let Some(mut f) = mk(vec![Block::Raw(b"hello".to_vec())]) {
        f[6] &= !1; // not last
        f.extend(&[0x07, 0x00, 0x00]);
        v.push(("reserved block type after a valid block".into(), f));
    }
    // window at the default limit with an empty block (reuse path allocates window-sized memory)
    v.push(("128 MiB window, empty raw block".into(), vec![0x28, 0xB5, 0x2F, 0xFD, 0x00, 17 << 3, 0x01, 0x00, 0x00]));
    // skippable frames: huge declared length, truncated
    v.push(("skippable frame, length 0xFFFFFFFF".into(), vec![0x50, 0x2A, 0x4D, 0x18, 0xFF, 0xFF, 0xFF, 0xFF, 1, 2, 3]));
    // 257 weights through the FSE path: log 5, symbol 0 (weight 0) has all the probability but one
    v
}

impl Space {
    pub fn build(tier: Tier) -> Space {
        let seed_cap = tier.pick(260, 520);
        let mut seeds = seeds::small(400, seed_cap);
        seeds.push(seeds::windowed(true, 3));
        // the frame every failed decoder is reset onto: small window, checksum, several blocks
        let good = seeds::windowed(true, 2);
        let mut fams: Vec<(Fam, u64)> = vec![];
        for (i, s) in seeds.iter().enumerate() {
            fams.push((Fam::Trunc(i), s.frame.len() as u64));
            let vals: Vec<u8> = if tier == Tier::Thorough && s.frame.len() <= 120 { (1..=255).collect() } else { VALS5.to_vec() };
            fams.push((Fam::Byte(i, vals.clone()), s.frame.len() as u64 * vals.len() as u64));
            if tier == Tier::Thorough && s.frame.len() <= 40 {
                let n = s.frame.len() as u64;
                fams.push((Fam::Pair(i), n * n * 9));
            }
        }
        for shape in 0..tier.pick(1, 3) {
            fams.push((Fam::BlockHeaders(shape), 1 << 24));
        }
        let k = tier.pick(2, 3);
        fams.push((Fam::Strings(0, k), strings_count(k)));
        for kind in 1..=4u8 {
            fams.push((Fam::Strings(kind, k), strings_count(k)));
        }
        fams.push((Fam::Strings(6, k), strings_count(k)));
        fams.push((Fam::Strings(7, 2), strings_count(2)));
        let nw = tier.pick(4, 5);
        fams.push((Fam::DirectWeights(nw), (1..=nw as u32).map(|l| 16u64.pow(l)).sum()));
        let hostile = hostile_frames();
        fams.push((Fam::Hostile, hostile.len() as u64));
        // dictionaries: the repository's test dictionary (first 4 KiB hold the tables) and a model dictionary
        let mut dicts = vec![];
        let repo = std::env::var("VERIF_REPO").unwrap_or_else(|_| "/repo".into());
        if let Ok(d) = std::fs::read(format!("{repo}/ruzstd/dict_tests/dictionary")) {
            dicts.push(d);
        }
        let md = crate::gen::model_dict(77);
        dicts.push(md.serialize().expect("model dictionary"));
        let mut dict_frames = vec![];
        for d in &dicts {
            // a frame compressed with the intact dictionary (decoded with every mutant that still parses)
            let data: Vec<u8> = d[d.len().saturating_sub(600)..].iter().rev().cloned().chain(d[d.len().saturating_sub(300)..].iter().cloned()).collect();
            dict_frames.push(crate::refz::compress(&data, &crate::refz::CParams { level: 3, dict_id: true, ..Default::default() }, Some(d)).unwrap_or_default());
        }
        for (i, d) in dicts.iter().enumerate() {
            let head = d.len().min(tier.pick(600, 4096)) as u64;
            fams.push((Fam::Dict(i, 0), head));
            fams.push((Fam::Dict(i, 1), head * 5));
        }
        let w = crate::c07::world();
        let prologues = vec![w.setters[0].bytes.clone(), w.setters[1].bytes.clone(), w.setters[7].bytes.clone()];
        Space { seeds, fams, hostile, dicts, dict_frames, good, prologues }
    }
    pub fn total(&self) -> u64 {
        self.fams.iter().map(|f| f.1).sum()
    }
    /// output limit handed to the front ends for a case: generous for the seed it derives from, small for the
    /// byte-complete spaces (whose valid members regenerate a few bytes)
    pub fn limit(&self, mut idx: u64) -> usize {
        for (f, n) in &self.fams {
            if idx >= *n {
                idx -= n;
                continue;
            }
            return match f {
                Fam::Trunc(s) | Fam::Byte(s, _) | Fam::Pair(s) => (2 * self.seeds[*s].plain.len() + 4096).clamp(1 << 16, LIMIT),
                Fam::Hostile | Fam::Dict(..) => LIMIT,
                _ => 1 << 16,
            };
        }
        LIMIT
    }
    /// (family name, input bytes, dictionary bytes if this is a dictionary case, reduced front-end set?)
    pub fn case(&self, mut idx: u64) -> (String, Vec<u8>, Option<Vec<u8>>, bool) {
        for (f, n) in &self.fams {
            if idx >= *n {
                idx -= n;
                continue;
            }
            return match f {
                Fam::Trunc(s) => ("truncation".into(), self.seeds[*s].frame[..idx as usize].to_vec(), None, false),
                Fam::Byte(s, vals) => {
                    let fr = &self.seeds[*s].frame;
                    let pos = (idx / vals.len() as u64) as usize;
                    let v = vals[(idx % vals.len() as u64) as usize];
                    let mut m = fr.clone();
                    m[pos] = if vals.len() == 5 {
                        match idx % 5 {
                            0 => 0x00,
                            1 => 0xFF,
                            2 => fr[pos] ^ 1,
                            3 => fr[pos] ^ 0x80,
                            _ => fr[pos].wrapping_add(1),
                        }
                    } else {
                        fr[pos] ^ v
                    };
                    ("single byte".into(), m, None, false)
                }
                Fam::Pair(s) => {
                    let fr = &self.seeds[*s].frame;
                    let n = fr.len() as u64;
                    let (p1, r) = (idx / (n * 9), idx % (n * 9));
                    let (p2, vv) = (r / 9, r % 9);
                    let mut m = fr.clone();
                    m[p1 as usize] = PAIRVALS[(vv / 3) as usize] ^ if vv / 3 == 2 { fr[p1 as usize] } else { 0 };
                    m[p2 as usize] = PAIRVALS[(vv % 3) as usize] ^ if vv % 3 == 2 { fr[p2 as usize] } else { 0 };
                    ("byte pair".into(), m, None, false)
                }
                Fam::BlockHeaders(shape) => {
                    let mut f = vec![0x28, 0xB5, 0x2F, 0xFD, 0x00, 0x00, idx as u8, (idx >> 8) as u8, (idx >> 16) as u8];
                    match shape {
                        0 => f.extend(&[0x41; 10]),
                        1 => {}
                        _ => f.push(0x00),
                    }
                    ("block header".into(), f, None, true)
                }
                Fam::Strings(kind, k) => {
                    let s = nth_string(idx, *k);
                    (format!("byte strings at position kind {kind}"), frame_with_body(&body_for(*kind, &s)), None, true)
                }
                Fam::DirectWeights(nw) => {
                    let mut i = idx;
                    let mut len = 1;
                    while i >= 16u64.pow(len) {
                        i -= 16u64.pow(len);
                        len += 1;
                    }
                    let _ = nw;
                    let w: Vec<u8> = (0..len).map(|j| ((i >> (4 * j)) & 15) as u8).collect();
                    let mut lit = zmodel::huf::describe_direct(&w);
                    lit.extend(&[0xB5, 0x01]);
                    let v = 2u32 | 3u32 << 4 | (lit.len() as u32) << 14;
                    let mut b = v.to_le_bytes()[..3].to_vec();
                    b.extend(lit);
                    b.push(0);
                    ("direct huffman weights".into(), frame_with_body(&b), None, true)
                }
                Fam::Hostile => (format!("hostile: {}", self.hostile[idx as usize].0), self.hostile[idx as usize].1.clone(), None, false),
                Fam::Dict(d, kind) => {
                    let dict = &self.dicts[*d];
                    let m = if *kind == 0 {
                        dict[..idx as usize].to_vec()
                    } else {
                        let pos = (idx / 5) as usize;
                        let mut m = dict.clone();
                        m[pos] = match idx % 5 {
                            0 => 0x00,
                            1 => 0xFF,
                            2 => dict[pos] ^ 1,
                            3 => dict[pos] ^ 0x80,
                            _ => dict[pos].wrapping_add(1),
                        };
                        m
                    };
                    (if *kind == 0 { "dictionary truncation".into() } else { "dictionary byte".into() }, self.dict_frames[*d].clone(), Some(m), false)
                }
            };
        }
        unreachable!("case index out of range")
    }
}

const LIMIT: usize = 1 << 22;

/// after an error: drain, query every accessor, reset onto a known-good frame, decode it on the same object
fn epilogue(dec: &mut FrameDecoder, good: &Seed) -> Result<(), String> {
    let r = meter::guarded(|| {
        let _ = dec.collect();
        let mut sink = Vec::new();
        let _ = dec.collect_to_writer(&mut sink);
        let _ = (dec.is_finished(), dec.can_collect(), dec.blocks_decoded(), dec.bytes_read_from_source(), dec.get_checksum_from_data(), dec.get_calculated_checksum(), dec.content_size());
        fe::run_on(dec, 2, &good.frame, good.plain.len() + 64)
    });
    match r {
        Err(p) => Err(format!("panic in the epilogue after an error: {p}")),
        Ok(o) => {
            if o.is_ok_with(&good.plain) {
                Ok(())
            } else {
                Err(format!("after an error, reset + decode of a good frame on the same decoder gives {}", o.brief()))
            }
        }
    }
}

/// one case through the front ends; returns violations (identity, what)
pub fn run_case(space: &Space, idx: u64) -> Vec<(String, String)> {
    let (fam, data, dict, reduced) = space.case(idx);
    let limit = space.limit(idx);
    let mut out = vec![];
    let fam_short = fam.split(':').next().unwrap_or("").to_string();
    if let Some(d) = dict {
        // dictionary parsing, then decoding with every mutant that parsed
        match meter::guarded(|| ruzstd::decoding::Dictionary::decode_dict(&d)) {
            Err(p) => out.push((format!("panic:{}", p.rsplit(" @ ").next().unwrap_or("")), format!("[{fam}] Dictionary::decode_dict panicked: {p}"))),
            Ok(Err(_)) => {}
            Ok(Ok(parsed)) => {
                let mut dec = FrameDecoder::new();
                let _ = dec.add_dict(parsed);
                for f in [0usize, 2] {
                    let o = fe::run_on(&mut dec, f, &data, LIMIT);
                    if let End::Panic(p) = &o.end {
                        out.push((format!("panic:{}", p.rsplit(" @ ").next().unwrap_or("")), format!("[{fam}] decoding with a mutated dictionary panicked in {}: {p}", fe::FRONT_ENDS[f])));
                        break;
                    }
                }
            }
        }
        return out;
    }
    let fes: &[usize] = if reduced { &[0, 7] } else { &[0, 1, 2, 3, 4, 5, 6, 7] };
    for &f in fes {
        let w = meter::begin();
        let mut dec = FrameDecoder::new();
        let o = fe::run_on(&mut dec, f, &data, limit);
        match &o.end {
            End::Panic(p) => {
                out.push((format!("panic:{}", p.rsplit(" @ ").next().unwrap_or("")), format!("[{fam}] {} panicked: {p}", fe::FRONT_ENDS[f])));
                break;
            }
            End::Err(_) => {
                if f != 5 {
                    if let Err(e) = epilogue(&mut dec, &space.good) {
                        out.push((format!("epilogue:{fam_short}"), format!("[{fam}] after {} failed: {e}", fe::FRONT_ENDS[f])));
                        break;
                    }
                }
            }
            End::Ok => {}
        }
        if w.peak() > 1 << 30 {
            out.push((format!("memory:{fam_short}"), format!("[{fam}] {} used {} MiB of heap for a {}-byte input", fe::FRONT_ENDS[f], w.peak() >> 20, data.len())));
            break;
        }
    }
    // the same input on a decoder that was used before: one of three prologue frames is decoded completely first
    // (a legal history), then the case through one reader front end; the prologue and the front end rotate with
    // the case index so that every family meets every combination
    if out.is_empty() && (!reduced || idx % 4 == 0) {
        // (every fourth case of the byte-complete spaces, every case of the others)
        let pi = (idx % space.prologues.len() as u64) as usize;
        let f = [2usize, 0, 3][((idx / 12) % 3) as usize];
        let mut dec = FrameDecoder::new();
        let p = fe::run_on(&mut dec, 2, &space.prologues[pi], 1 << 20);
        if p.end != End::Ok {
            out.push(("MODEL:prologue".into(), format!("prologue frame {pi} does not decode: {}", p.brief())));
            return out;
        }
        let o = fe::run_on(&mut dec, f, &data, limit);
        match &o.end {
            End::Panic(p) => out.push((format!("panic:{}", p.rsplit(" @ ").next().unwrap_or("")), format!("[{fam}] on a decoder that had decoded another frame before (prologue {pi}), {} panicked: {p}", fe::FRONT_ENDS[f]))),
            End::Err(_) => {
                if let Err(e) = epilogue(&mut dec, &space.good) {
                    out.push((format!("epilogue_reused:{fam_short}"), format!("[{fam}] reused decoder, after {} failed: {e}", fe::FRONT_ENDS[f])));
                }
            }
            End::Ok => {}
        }
    }
    out
}

pub fn worker(tier: Tier, wa: &WorkerArgs) -> i32 {
    pool::worker_init(8 << 30, 10);
    let space = Space::build(tier);
    let prog = pool::Progress::open(&wa.progress);
    let total = space.total();
    let mut evals = 0u64;
    let mut viol: Vec<Violation> = vec![];
    let mut fam_counts: std::collections::BTreeMap<String, u64> = Default::default();
    let range: Box<dyn Iterator<Item = u64>> = match wa.only {
        Some(i) => Box::new(std::iter::once(i)),
        None => Box::new((0..total).filter(|i| (*i % wa.nshards as u64) == wa.shard as u64)),
    };
    for idx in range {
        if let Some(r) = wa.resume_after {
            if idx <= r {
                continue;
            }
        }
        prog.begin_case(idx);
        prog.completed(evals);
        evals += 1;
        for (identity, what) in run_case(&space, idx) {
            if viol.len() < 20 && !viol.iter().any(|v| v.identity == identity) {
                let (_, data, dict, _) = space.case(idx);
                viol.push(Violation { identity, what, replay: json!({"case_index": idx, "input": hex(&data[..data.len().min(4096)]), "dictionary": dict.map(|d| hex(&d[..d.len().min(2048)]))}) });
            }
        }
        if wa.only.is_some() || idx % 997 == 0 {
            *fam_counts.entry(space.case(idx).0.split(':').next().unwrap().to_string()).or_insert(0) += 1;
        }
    }
    prog.idle();
    println!("{}", pool::worker_json(evals, evals, &viol, json!({"families_sampled": fam_counts})));
    0
}

pub fn main(tier: Tier, replay: Option<Value>, wa: Option<WorkerArgs>) -> i32 {
    if let Some(w) = wa {
        return worker(tier, &w);
    }
    if let Some(r) = replay {
        return do_replay(tier, &r["replay"]);
    }
    let mut run = Run::new("C03", "fault_enumeration", tier);
    let space = Space::build(tier);
    let total = space.total();
    println!("C03: {} seed frames, {} families, {} cases", space.seeds.len(), space.fams.len(), total);
    let n = meter::threads();
    let results = pool::run_workers("C03", tier.name(), n, &[], 6);
    let mut evals = 0u64;
    for r in results {
        if let Some(o) = r.output {
            evals += o["evals"].as_u64().unwrap_or(0);
            for v in o["violations"].as_array().cloned().unwrap_or_default() {
                run.violation(Violation { identity: v["identity"].as_str().unwrap_or("").to_string(), what: v["what"].as_str().unwrap_or("").to_string(), replay: v["replay"].clone() });
            }
        }
        evals += r.partial_evals;
        if let Some((idx, how)) = r.died {
            if idx == u64::MAX {
                run.machinery_error(format!("worker {}: {how}", r.shard));
                continue;
            }
            // confirm twice in fresh subprocesses before it becomes a verdict
            let c1 = pool::run_single("C03", tier.name(), idx, &[]);
            let c2 = pool::run_single("C03", tier.name(), idx, &[]);
            let (fam, data, _, _) = space.case(idx);
            if c1.starts_with("completed") && c2.starts_with("completed") {
                run.machinery_error(format!("worker {} died at case {idx} ({how}) but the case completes on its own: {c1}", r.shard));
            } else {
                let kind = if c1.contains("hang") { "hang" } else { "abort" };
                run.violation(Violation { identity: format!("{kind}:{}", fam.split(':').next().unwrap_or("")), what: format!("[{fam}] the decoding process died on a {}-byte input: {how}; alone: {c1} / {c2}", data.len()), replay: json!({"case_index": idx, "input": hex(&data[..data.len().min(4096)])}) });
            }
        }
    }
    run.set("evaluations", evals);
    run.set("distinct_nontrivial", evals);
    run.set("cases_planned", total);
    run.set("seed_frames", space.seeds.len() as u64);
    run.set("exhaustive", false);
    run.set("workers", n as u64);
    let mut fams: std::collections::BTreeMap<String, u64> = Default::default();
    for (f, c) in &space.fams {
        let name = match f {
            Fam::Trunc(_) => "every truncation of every seed".to_string(),
            Fam::Byte(..) => "every position x replacement values".to_string(),
            Fam::Pair(_) => "position pairs on small seeds".to_string(),
            Fam::BlockHeaders(s) => format!("all 2^24 block headers, body shape {s}"),
            Fam::Strings(k, n) => format!("all byte strings <= {n} at position kind {k}"),
            Fam::DirectWeights(n) => format!("all direct weight vectors <= {n}"),
            Fam::Hostile => "hostile well-formed frames".to_string(),
            Fam::Dict(_, k) => format!("dictionary {}", if *k == 0 { "truncations" } else { "byte faults" }),
        };
        *fams.entry(name).or_insert(0) += c;
    }
    run.set("families", json!(fams));
    run.set("rule", "0 faults = the seed frames (valid per libzstd); 1 fault = every truncation and every (position, value) replacement; 2 faults = position pairs on frames <= 40 bytes (thorough); complete byte-level spaces behind a valid prefix (all 2^24 block headers, all short compressed-block bodies, all short FSE descriptions at the LL/OF/ML/Huffman-weight positions, all short direct weight vectors, all literals-header prefixes); hand-built hostile but well-formed frames; dictionary faults followed by decoding with every mutant that parsed. Each case through up to 8 front ends (2 for the byte-complete spaces) on a new decoder and through one front end on a decoder that decoded one of three other frames before (Huffman tables of both kinds, FSE tables, RLE symbols, checksum left behind), with, after an error, drain + accessor queries + reset onto a good frame that must then decode correctly on the same object. Every case is distinct by construction and counts as non-trivial (it reaches the decoder)");
    run.sample(json!({"family": "single byte", "seed": space.seeds[3].name, "frame": show(&space.seeds[3].frame)}));
    run.sample(json!({"family": "hostile", "name": space.hostile[0].0, "frame": show(&space.hostile[0].1)}));
    run.assume("process-level isolation: 8 GiB address-space limit and a 10 s watchdog per case in worker subprocesses; a dead worker's case is re-run alone twice before it is reported");
    run.assume("memory safety beyond panics is checked natively by the guard allocator only for the ring buffer (C04); the ASan tier of C03 is not part of the quick run");
    run.finish()
}

fn do_replay(tier: Tier, r: &Value) -> i32 {
    let idx = r["case_index"].as_u64().unwrap_or(u64::MAX);
    if idx == u64::MAX {
        return 2;
    }
    let a = pool::run_single("C03", tier.name(), idx, &[]);
    let b = pool::run_single("C03", tier.name(), idx, &[]);
    println!("replay of case {idx} (tier {}): run 1: {a}\nrun 2: {b}", tier.name());
    if a != b {
        return 2;
    }
    if !a.starts_with("completed") || a.contains("\"violations\":[{") {
        println!("VIOLATION property=C03 replay=(given file)");
        1
    } else {
        0
    }
}
