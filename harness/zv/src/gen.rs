//! Frame generator: block archetypes over an abstract decoder state, materialised by zmodel's spec encoder.
//! Shared by C01, C03, C05, C06, C07, C09, C10.
use zmodel::dict::Dict;
use zmodel::frame::*;
use zmodel::fse;
use zmodel::tables::*;

#[derive(Clone, Copy, Debug, PartialEq, Eq, Hash, PartialOrd, Ord)]
pub enum LitKind {
    Raw(u8),
    Rle(u8),
    /// (streams, size_format, fse-compressed weights?)
    Huff(u8, u8, bool),
    Treeless(u8, u8),
}
#[derive(Clone, Copy, Debug, PartialEq, Eq, Hash, PartialOrd, Ord)]
pub enum ModeKind {
    Pre,
    Rle,
    Fse,
    FseMaxLog,
    Rep,
}
#[derive(Clone, Copy, Debug, PartialEq, Eq, Hash, PartialOrd, Ord)]
pub enum Pattern {
    /// no sequences at all
    None,
    /// one sequence, new offset
    One,
    /// three sequences sharing every code (RLE-friendly)
    SameCodes,
    /// every repeat-offset code with ll = 0 and ll > 0, including "rep1 - 1"
    Repeats,
    /// overlapping matches (offset 1, offset < length)
    Overlap,
    /// match that starts at the very first byte produced by the frame
    ReachStart,
    /// literal length code 35 (65536 literals)
    MaxLl,
    /// match length code 52
    MaxMl,
    /// 200 sequences (needs the two-byte count)
    Many,
    /// 0x7F00 sequences (three-byte count), zero-bit friendly
    Huge,
}
#[derive(Clone, Copy, Debug, PartialEq, Eq, Hash, PartialOrd, Ord)]
pub enum Arch {
    Raw(u32),
    RleBlock(u32),
    Comp { lits: LitKind, count_form: u8, modes: [ModeKind; 3], pattern: Pattern },
}

/// what the decoder carries from block to block, abstractly (the BFS key of C01) and concretely (for generation)
#[derive(Clone, Debug, Default)]
pub struct GenState {
    pub enc: EncState,
    pub produced: usize,
    pub rep: [u32; 3],
    pub dict_len: usize,
}
#[derive(Clone, Copy, Debug, PartialEq, Eq, Hash, PartialOrd, Ord)]
pub enum TabAbs {
    None,
    Pre,
    Rle,
    Fse,
}
pub type AbsKey = (bool, [TabAbs; 3]);

impl GenState {
    pub fn new(dict: Option<&Dict>) -> GenState {
        match dict {
            Some(d) => GenState { enc: EncState::from_dict(d), produced: 0, rep: d.rep, dict_len: d.content.len() },
            None => GenState { enc: EncState::default(), produced: 0, rep: [1, 4, 8], dict_len: 0 },
        }
    }
    pub fn abs(&self) -> AbsKey {
        let t = |i: usize| match &self.enc.tabs[i] {
            None => TabAbs::None,
            Some(TabKind::Rle(_)) => TabAbs::Rle,
            Some(TabKind::Fse(t)) => {
                if *t == default_table(i) {
                    TabAbs::Pre
                } else {
                    TabAbs::Fse
                }
            }
        };
        (self.enc.huf.is_some(), [t(0), t(1), t(2)])
    }
    /// account for a block that has been appended (the spec encoder already updated `enc`)
    pub fn advance(&mut self, b: &Block) {
        match b {
            Block::Raw(v) => self.produced += v.len(),
            Block::Rle(_, n) => self.produced += *n as usize,
            Block::Hostile(..) => {}
            Block::Compressed { lits, seqs, .. } => {
                let l = lit_bytes(lits).len();
                for s in seqs {
                    let _ = resolve_offset(s.of, s.ll, &mut self.rep);
                }
                self.produced += l + seqs.iter().map(|s| s.ml as usize).sum::<usize>();
            }
        }
    }
}

pub const HUF_DIRECT_WEIGHTS: [u8; 6] = [4, 3, 2, 1, 1, 0]; // + implied last: see huf_weights()
/// a 7-symbol table whose description is direct, and a 20-symbol one described with FSE-compressed weights
pub fn huf_weights(fse_desc: bool) -> Vec<u8> {
    if !fse_desc {
        // symbols 0..=6: weights 4,3,2,1,1,0 and the implied last; sum = 8+4+2+1+1 = 16 -> last = 16 -> weight 5
        zmodel::huf::complete(&[4, 3, 2, 1, 1, 0]).unwrap()
    } else {
        // 20 symbols: sixteen of weight 1, then 2, 3, 4 -> sum 16+2+4+8 = 30, gap 2 -> implied last weight 2
        let mut h = vec![1u8; 16];
        h.extend_from_slice(&[2, 3, 4]);
        zmodel::huf::complete(&h).unwrap()
    }
}
pub fn weights_dist(head: &[u8]) -> (Vec<i16>, u8) {
    // distribution over weight values 0..=max for the FSE-compressed description, log 6: every weight that
    // occurs gets at least 2 so that no state of it needs zero bits
    let maxw = *head.iter().max().unwrap() as usize;
    let mut cnt = vec![0usize; maxw + 1];
    for &w in head {
        cnt[w as usize] += 1;
    }
    normalise(&cnt, 6, 2)
}
/// normalise counts to 2^log with every used symbol >= floor
pub fn normalise(cnt: &[usize], log: u8, floor: i16) -> (Vec<i16>, u8) {
    let size = 1i32 << log;
    let total: usize = cnt.iter().sum();
    let mut d: Vec<i16> = cnt.iter().map(|&c| if c == 0 { 0 } else { ((c as i64 * size as i64 / total as i64) as i16).max(floor) }).collect();
    let mut sum: i32 = d.iter().map(|&x| x as i32).sum();
    // fix the sum on the largest entry (or shave from the largest ones)
    while sum != size {
        let i = (0..d.len()).max_by_key(|&i| d[i]).unwrap();
        if sum < size {
            d[i] += (size - sum) as i16;
            sum = size;
        } else {
            let take = ((sum - size) as i16).min(d[i] - floor);
            assert!(take > 0, "cannot normalise");
            d[i] -= take;
            sum -= take as i32;
        }
    }
    (d, log)
}

fn lit_byte(i: usize, alphabet: &[u8]) -> u8 {
    alphabet[(i * 7 + i / 3) % alphabet.len()]
}

fn make_lits(kind: LitKind, n: usize, st: &GenState) -> Option<Lits> {
    match kind {
        LitKind::Raw(sf) => Some(Lits::Raw((0..n).map(|i| (i * 13 + 5) as u8).collect(), sf)),
        LitKind::Rle(sf) => Some(Lits::Rle(0x5A, n as u32, sf)),
        LitKind::Huff(streams, sf, fse_desc) => {
            let w = huf_weights(fse_desc);
            let alphabet: Vec<u8> = (0..w.len()).filter(|&s| w[s] > 0).map(|s| s as u8).collect();
            let n = if streams == 4 { n.max(8) } else { n.max(1) };
            let lits: Vec<u8> = (0..n).map(|i| lit_byte(i, &alphabet)).collect();
            let desc = if fse_desc {
                let (d, l) = weights_dist(&w[..w.len() - 1]);
                WDesc::Fse(d, l)
            } else {
                WDesc::Direct
            };
            Some(Lits::Huff { lits, weights: w, desc, streams, size_format: sf })
        }
        LitKind::Treeless(streams, sf) => {
            let w = st.enc.huf.as_ref()?;
            let alphabet: Vec<u8> = (0..w.len()).filter(|&s| w[s] > 0).map(|s| s as u8).collect();
            let n = if streams == 4 { n.max(8) } else { n.max(1) };
            Some(Lits::Treeless { lits: (0..n).map(|i| lit_byte(i + 3, &alphabet)).collect(), streams, size_format: sf })
        }
    }
}

fn make_seqs(p: Pattern, st: &GenState) -> Option<Vec<Seq>> {
    let hist = st.produced + st.dict_len; // bytes reachable before this block
    let s = |ll: u32, ml: u32, of: u32| Seq { ll, ml, of };
    Some(match p {
        Pattern::None => vec![],
        Pattern::One => vec![s(2, 3, 3 + 1)],
        Pattern::SameCodes => vec![s(4, 4, 4), s(4, 4, 5), s(4, 4, 7)],
        Pattern::Repeats => {
            // for each of the six repeat-code cases: seed the history with three distinct new offsets, apply the
            // case, then read the history out with three "offset code 3, ll > 0" sequences (each takes the third
            // entry and rotates it to the front), so that every slot of the updated history reaches the output
            let mut v = vec![];
            let mut first = true;
            for (ll, of) in [(1u32, 1u32), (1, 2), (1, 3), (0, 1), (0, 2), (0, 3)] {
                v.push(s(if first { 9 } else { 1 }, 3, 3 + 7));
                v.push(s(1, 4, 3 + 3));
                v.push(s(2, 3, 3 + 5));
                first = false;
                v.push(s(ll, 3, of));
                for _ in 0..3 {
                    v.push(s(1, 3, 3));
                }
            }
            v
        }
        Pattern::Overlap => vec![s(1, 40, 3 + 1), s(2, 19, 3 + 2), s(3, 7, 3 + 3)],
        Pattern::ReachStart => {
            let ll = 5u32;
            vec![s(ll, 6, 3 + (st.produced as u32 + ll))]
        }
        Pattern::MaxLl => vec![s(65536 + 77, 3, 3 + 9)],
        Pattern::MaxMl => vec![s(3, 65539 + 1234, 3 + 2)],
        Pattern::Many => (0..200).map(|i| s((i % 3) as u32, 3 + (i % 5) as u32, 3 + 1 + (i % 2) as u32)).collect(),
        Pattern::Huge => {
            if hist == 0 {
                return None;
            }
            vec![s(0, 3, 1); 0x7F00]
        }
    })
}

fn mode_for(kind: ModeKind, i: usize, codes: &[u8], st: &GenState) -> Option<Mode> {
    let max_sym = [35usize, 31, 52][i];
    let max_log = [LL_MAX_LOG, OF_MAX_LOG, ML_MAX_LOG][i];
    match kind {
        ModeKind::Pre => {
            let t = default_table(i);
            let e = fse::Enc::new(&t);
            if codes.iter().all(|&c| e.has(c)) {
                Some(Mode::Predefined)
            } else {
                None
            }
        }
        ModeKind::Rle => {
            if codes.iter().all(|&c| c == codes[0]) {
                Some(Mode::Rle(codes[0]))
            } else {
                None
            }
        }
        ModeKind::Fse | ModeKind::FseMaxLog => {
            let log = if kind == ModeKind::Fse { 5 } else { max_log };
            let top = *codes.iter().max().unwrap() as usize;
            let mut cnt = vec![0usize; top + 1];
            for &c in codes {
                cnt[c as usize] += 1;
            }
            // a symbol that is never used, with "less than one" probability, when there is room
            let (mut d, l) = normalise(&cnt, log, 1);
            if top + 1 <= max_sym {
                let i = (0..d.len()).max_by_key(|&i| d[i]).unwrap();
                if d[i] > 1 {
                    d[i] -= 1;
                    d.push(-1);
                }
            }
            Some(Mode::Fse(d, l))
        }
        ModeKind::Rep => match &st.enc.tabs[i] {
            None => None,
            Some(TabKind::Rle(s)) => {
                if codes.iter().all(|c| c == s) {
                    Some(Mode::Repeat)
                } else {
                    None
                }
            }
            Some(TabKind::Fse(t)) => {
                let e = fse::Enc::new(t);
                if codes.iter().all(|&c| e.has(c)) {
                    Some(Mode::Repeat)
                } else {
                    None
                }
            }
        },
    }
}

/// Materialise an archetype in a state; None if it is not applicable there.
pub fn make_block(a: Arch, st: &GenState) -> Option<Block> {
    match a {
        Arch::Raw(n) => Some(Block::Raw((0..n).map(|i| (i * 3 + 1 + st.produced as u32) as u8).collect())),
        Arch::RleBlock(n) => Some(Block::Rle(0xC3u8.wrapping_add(st.produced as u8), n)),
        Arch::Comp { lits, count_form, modes, pattern } => {
            let seqs = make_seqs(pattern, st)?;
            // offsets must stay inside dictionary + output
            let need: usize = seqs.iter().map(|s| s.ll as usize).sum::<usize>() + 2;
            let l = make_lits(lits, need, st)?;
            let have = lit_bytes(&l).len();
            let regen = have + seqs.iter().map(|s| s.ml as usize).sum::<usize>();
            if regen > MAX_BLOCK {
                return None;
            }
            let n = seqs.len();
            let form_ok = match count_form {
                1 => n < 128,
                2 => n < 0x7F00,
                _ => n >= 0x7F00,
            };
            if !form_ok {
                return None;
            }
            let mut ms = [Mode::Predefined, Mode::Predefined, Mode::Predefined];
            if n > 0 {
                let mut codes: [Vec<u8>; 3] = [vec![], vec![], vec![]];
                for s in &seqs {
                    let c = seq_codes(s).ok()?;
                    for i in 0..3 {
                        codes[i].push(c[i].0);
                    }
                }
                for i in 0..3 {
                    ms[i] = mode_for(modes[i], i, &codes[i], st)?;
                }
            } else if modes != [ModeKind::Pre; 3] {
                return None; // modes are not written without sequences: one representative
            }
            let b = Block::Compressed { lits: l, count_form, modes: ms, seqs, pick: 0 };
            // validity of offsets is decided by the executor when the frame is realised
            Some(b)
        }
    }
}

pub fn lit_kinds(with_treeless: bool) -> Vec<LitKind> {
    let mut v = vec![LitKind::Raw(0), LitKind::Raw(1), LitKind::Raw(3), LitKind::Rle(0), LitKind::Rle(1), LitKind::Rle(3)];
    for fse_desc in [false, true] {
        v.push(LitKind::Huff(1, 0, fse_desc));
        for sf in 1..=3 {
            v.push(LitKind::Huff(4, sf, fse_desc));
        }
    }
    if with_treeless {
        v.push(LitKind::Treeless(1, 0));
        for sf in 1..=3 {
            v.push(LitKind::Treeless(4, sf));
        }
    }
    v
}
pub const MODE_KINDS: [ModeKind; 5] = [ModeKind::Pre, ModeKind::Rle, ModeKind::Fse, ModeKind::FseMaxLog, ModeKind::Rep];
pub const PATTERNS: [Pattern; 9] = [Pattern::One, Pattern::SameCodes, Pattern::Repeats, Pattern::Overlap, Pattern::ReachStart, Pattern::MaxLl, Pattern::MaxMl, Pattern::Many, Pattern::Huge];

/// the full alphabet of block archetypes
pub fn alphabet() -> Vec<Arch> {
    let mut v = vec![Arch::Raw(0), Arch::Raw(1), Arch::Raw(5), Arch::RleBlock(0), Arch::RleBlock(1), Arch::RleBlock(1000)];
    for lits in lit_kinds(true) {
        v.push(Arch::Comp { lits, count_form: 1, modes: [ModeKind::Pre; 3], pattern: Pattern::None });
        v.push(Arch::Comp { lits, count_form: 2, modes: [ModeKind::Pre; 3], pattern: Pattern::None });
        for &pattern in &PATTERNS {
            for count_form in 1..=3u8 {
                for &a in &MODE_KINDS {
                    for &b in &MODE_KINDS {
                        for &c in &MODE_KINDS {
                            v.push(Arch::Comp { lits, count_form, modes: [a, b, c], pattern });
                        }
                    }
                }
            }
        }
    }
    v
}

/// a reduced alphabet in which every value of every dimension occurs and all pairs (literals kind, pattern),
/// (mode, mode) occur
pub fn alphabet_pairwise() -> Vec<Arch> {
    let mut v = vec![Arch::Raw(0), Arch::Raw(5), Arch::RleBlock(1), Arch::RleBlock(1000)];
    let lk = lit_kinds(true);
    for (i, &lits) in lk.iter().enumerate() {
        v.push(Arch::Comp { lits, count_form: 1, modes: [ModeKind::Pre; 3], pattern: Pattern::None });
        for (j, &pattern) in PATTERNS.iter().enumerate() {
            let a = MODE_KINDS[(i + j) % 5];
            let b = MODE_KINDS[(i + 2 * j + 1) % 5];
            let c = MODE_KINDS[(2 * i + j + 2) % 5];
            for count_form in 1..=3u8 {
                v.push(Arch::Comp { lits, count_form, modes: [a, b, c], pattern });
            }
        }
    }
    for &a in &MODE_KINDS {
        for &b in &MODE_KINDS {
            for &c in &MODE_KINDS {
                for pattern in [Pattern::SameCodes, Pattern::Repeats] {
                    v.push(Arch::Comp { lits: LitKind::Raw(1), count_form: 1, modes: [a, b, c], pattern });
                }
            }
        }
    }
    v.sort();
    v.dedup();
    v
}

pub fn default_header(checksum: bool) -> Header {
    // 8 MiB window: every offset the archetypes use fits
    Header::window(13 << 3, checksum)
}

/// blocks realised from a sequence of archetypes starting in the initial state; None if one does not apply
pub fn realise_path(path: &[Arch], dict: Option<&Dict>) -> Option<(Vec<Block>, GenState)> {
    let mut st = GenState::new(dict);
    let mut blocks = vec![];
    for &a in path {
        let b = make_block(a, &st)?;
        // let the spec encoder update the entropy state exactly as it will when the frame is encoded
        if let Block::Compressed { lits, count_form, modes, seqs, pick } = &b {
            encode_block_body(lits, *count_form, modes, seqs, *pick, &mut st.enc).ok()?;
        }
        st.advance(&b);
        blocks.push(b);
    }
    Some((blocks, st))
}

/// a dictionary built by the model: chosen entropy tables, repeat offsets (5, 9, 13), 64 bytes of content
pub fn model_dict(id: u32) -> Dict {
    let of = fse::build(&[8, 6, 6, 4, 4, 2, 1, -1], 5);
    let mut mld = vec![10i16, 8, 8, 6, 6, 4, 4, 4, 2, 2, 2];
    mld.extend_from_slice(&[1, 1, 1, 1, 1, 1, -1, -1]);
    let ml = fse::build(&mld, 6);
    let mut lld = vec![12i16, 8, 8, 6, 6, 4, 4, 2, 2, 2, 2];
    lld.extend_from_slice(&[1, 1, 1, 1, 1, 1, -1, -1]);
    let ll = fse::build(&lld, 6);
    let content: Vec<u8> = (0..64u32).map(|i| (i * 5 + 3) as u8 % 7).collect();
    Dict { id, huf_weights: huf_weights(false), of, ml, ll, rep: [5, 9, 13], content }
}
