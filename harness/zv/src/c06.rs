//! C06 — the decoded stream is independent of how the caller drives the decoder; C08 — checksums are computed
//! over exactly the delivered bytes. One explicit-state exploration serves both: every reachable driver state
//! x every decode / drain / sink operation (reader front end), and every chunking of the slice-to-slice call.
use crate::ev::{show, Run, Tier, Violation};
use crate::fe::Trickle;
use crate::seeds::{self, Seed};
use crate::xplore::{self, Caps, StateInfo, System};
use ruzstd::decoding::{BlockDecodingStrategy as S, FrameDecoder, StreamingDecoder};
use std::cell::UnsafeCell;
use std::sync::Arc;
use serde_json::{json, Value};
use std::io::{Read, Write};
use std::sync::atomic::{AtomicU64, Ordering};
use std::sync::Mutex;

#[derive(Clone, Debug, PartialEq)]
pub enum Op {
    DecAll,
    DecBlocks(usize),
    DecBytes(usize),
    Collect,
    Read(usize),
    /// collect_to_writer with a sink taking `per_call` bytes per write up to `budget`, then Ok(0) (kind 0),
    /// WouldBlock (kind 1) or a hard error (kind 2)
    Writer(usize, usize, u8),
    /// decode_from_to(source chunk length from the current position, target length)
    FromTo(usize, usize),
    /// std::io::Read::read_to_end on the StreamingDecoder
    ReadToEnd,
}

pub fn op_json(o: &Op) -> Value {
    let big = |n: &usize| if *n == usize::MAX { json!("max") } else { json!(n) };
    match o {
        Op::DecAll => json!(["decode_blocks", "All"]),
        Op::DecBlocks(n) => json!(["decode_blocks", "UptoBlocks", n]),
        Op::DecBytes(n) => json!(["decode_blocks", "UptoBytes", n]),
        Op::Collect => json!(["collect"]),
        Op::Read(n) => json!(["read", n]),
        Op::Writer(p, b, k) => json!(["collect_to_writer", big(p), big(b), k]),
        Op::FromTo(c, t) => json!(["decode_from_to", c, t]),
        Op::ReadToEnd => json!(["read_to_end"]),
    }
}
pub fn op_from(v: &Value) -> Op {
    let a = v.as_array().unwrap();
    let u = |i: usize| if a[i].as_str() == Some("max") { usize::MAX } else { a[i].as_u64().unwrap() as usize };
    match a[0].as_str().unwrap() {
        "decode_blocks" => match a[1].as_str().unwrap() {
            "All" => Op::DecAll,
            "UptoBlocks" => Op::DecBlocks(u(2)),
            _ => Op::DecBytes(u(2)),
        },
        "collect" => Op::Collect,
        "read" => Op::Read(u(1)),
        "read_to_end" => Op::ReadToEnd,
        "collect_to_writer" => Op::Writer(u(1), u(2), u(3) as u8),
        _ => Op::FromTo(u(1), u(2)),
    }
}

struct Sink {
    got: Vec<u8>,
    per_call: usize,
    budget: usize,
    kind: u8,
}
impl Write for Sink {
    fn write(&mut self, b: &[u8]) -> std::io::Result<usize> {
        if self.budget == 0 {
            return match self.kind {
                1 => Err(std::io::ErrorKind::WouldBlock.into()),
                2 => Err(std::io::Error::new(std::io::ErrorKind::Other, "sink failed")),
                _ => Ok(0),
            };
        }
        let n = b.len().min(self.per_call).min(self.budget);
        self.budget -= n;
        self.got.extend_from_slice(&b[..n]);
        Ok(n)
    }
    fn flush(&mut self) -> std::io::Result<()> {
        Ok(())
    }
}

/// coverage of C08's matrix: drain path x ring layout (0 contiguous, 1 wrapped)
pub static DRAIN_MATRIX: [[AtomicU64; 2]; 8] = [const { [const { AtomicU64::new(0) }; 2] }; 8];
pub const DRAIN_PATHS: [&str; 8] = ["read (retaining window)", "read_all (frame finished)", "collect retaining", "collect final", "collect_to_writer retaining", "collect_to_writer final", "collect_to_writer partial sink", "collect_to_writer failing sink"];

/// the source a StreamingDecoder owns: hands out at most k bytes per call (0 = everything asked for)
pub struct OwnedTrickle {
    data: Arc<Vec<u8>>,
    pos: usize,
    k: usize,
}
impl Read for OwnedTrickle {
    fn read(&mut self, buf: &mut [u8]) -> std::io::Result<usize> {
        let n = buf.len().min(if self.k == 0 { usize::MAX } else { self.k }).min(self.data.len() - self.pos);
        buf[..n].copy_from_slice(&self.data[self.pos..self.pos + n]);
        self.pos += n;
        Ok(n)
    }
}
/// the decoder a StreamingDecoder drives, shared with the harness so that its state can be read between calls
/// (the public type gives no access while streaming). Never touched while a call into the StreamingDecoder runs.
pub struct SharedDec(Arc<UnsafeCell<FrameDecoder>>);
impl std::borrow::Borrow<FrameDecoder> for SharedDec {
    fn borrow(&self) -> &FrameDecoder {
        unsafe { &*self.0.get() }
    }
}
impl std::borrow::BorrowMut<FrameDecoder> for SharedDec {
    fn borrow_mut(&mut self) -> &mut FrameDecoder {
        unsafe { &mut *self.0.get() }
    }
}
pub struct Stream {
    sd: StreamingDecoder<OwnedTrickle, SharedDec>,
    cell: Arc<UnsafeCell<FrameDecoder>>,
}
unsafe impl Send for Stream {}

pub struct DriveSys {
    pub seed: Seed,
    /// drive a StreamingDecoder (io::Read) instead of the FrameDecoder's own calls
    pub stream_mode: bool,
    frame_arc: Arc<Vec<u8>>,
    pub window: usize,
    /// 0 = whole slice, k > 0 = a reader handing out at most k bytes per call
    pub trickle: usize,
    pub slice_mode: bool,
    pub has_checksum: bool,
    /// C08's view of the same exploration: the bytes handed out are recorded as they are (a C06-owned mismatch with
    /// the content is not fatal here), and the terminal check is literally C08's statement: the calculated checksum
    /// equals XXH64 of exactly the bytes that were handed out, in order
    pub c08_view: std::sync::atomic::AtomicBool,
    pub nblocks: usize,
    pub terminal_checks: AtomicU64,
    pub first_terminal: Mutex<Option<Vec<Op>>>,
}

pub struct Live {
    stream: Option<Stream>,
    dec: FrameDecoder,
    pos: usize,
    delivered: Vec<u8>,
    errored: bool,
    /// number of fine-grained drains (a few bytes at a time) used on this path; bounded so that the product of
    /// delivered-length x ring-geometry stays finite and small (ring geometry in depth is C04's subject)
    fine: u8,
}
const FINE_MAX: u8 = 3;

fn ring_wrapped(d: &FrameDecoder) -> usize {
    match d.verif_ring_state() {
        Some((_, head, tail)) if tail < head => 1,
        _ => 0,
    }
}

impl DriveSys {
    pub fn new(seed: Seed, trickle: usize, slice_mode: bool) -> DriveSys {
        Self::new_mode(seed, trickle, slice_mode, false)
    }
    pub fn new_mode(seed: Seed, trickle: usize, slice_mode: bool, stream_mode: bool) -> DriveSys {
        let w = zmodel::walker::walk(&seed.frame, None).expect("seed must be valid");
        DriveSys { c08_view: std::sync::atomic::AtomicBool::new(false), stream_mode, frame_arc: Arc::new(seed.frame.clone()), window: w.header.window_size as usize, has_checksum: w.header.checksum_flag, nblocks: w.blocks.len(), seed, trickle, slice_mode, terminal_checks: AtomicU64::new(0), first_terminal: Mutex::new(None) }
    }
    fn d<'a>(&self, l: &'a Live) -> &'a FrameDecoder {
        match &l.stream {
            Some(s) => unsafe { &*s.cell.get() },
            None => &l.dec,
        }
    }
    fn take(&self, l: &mut Live, got: &[u8], what: &str) -> Result<(), String> {
        let exp = &self.seed.plain[l.delivered.len().min(self.seed.plain.len())..];
        if (got.len() > exp.len() || exp[..got.len()] != *got) && self.c08_view.load(Ordering::Relaxed) {
            l.delivered.extend_from_slice(got);
            return Ok(());
        }
        if got.len() > exp.len() || exp[..got.len()] != *got {
            let first = got.iter().zip(exp.iter()).position(|(a, b)| a != b);
            return Err(format!("{what} delivered {} bytes that are not the next bytes of the content (already delivered {}, content {}; first difference at {:?}): bytes lost, duplicated or reordered", got.len(), l.delivered.len(), self.seed.plain.len(), first));
        }
        l.delivered.extend_from_slice(got);
        Ok(())
    }
    fn decode(&self, l: &mut Live, strat: S) -> Result<(), String> {
        let frame = &self.seed.frame;
        let r = if self.trickle == 0 {
            let mut src = &frame[l.pos..];
            let r = l.dec.decode_blocks(&mut src, strat);
            l.pos = frame.len() - src.len();
            r
        } else {
            let mut t = Trickle { data: &frame[l.pos..], k: self.trickle, pulled: 0 };
            let r = l.dec.decode_blocks(&mut t, strat);
            l.pos += t.pulled;
            r
        };
        match r {
            Ok(_) => Ok(()),
            Err(e) => Err(format!("decode_blocks failed on a valid frame: {e:?}")),
        }
    }
}

impl System for DriveSys {
    type Op = Op;
    type Key = (usize, u64, usize, bool, Option<u32>, Option<(usize, usize, usize)>, Option<u32>, usize, u8);
    type Live = Live;
    fn fresh(&self) -> Live {
        if self.stream_mode {
            let cell = Arc::new(UnsafeCell::new(FrameDecoder::new()));
            let sd = StreamingDecoder::new_with_decoder(OwnedTrickle { data: self.frame_arc.clone(), pos: 0, k: self.trickle }, SharedDec(cell.clone())).expect("seed header");
            let pos = sd.get_ref().pos;
            return Live { stream: Some(Stream { sd, cell }), dec: FrameDecoder::new(), pos, delivered: vec![], errored: false, fine: 0 };
        }
        let mut dec = FrameDecoder::new();
        let mut pos = 0;
        if !self.slice_mode {
            let mut src = self.seed.frame.as_slice();
            dec.reset(&mut src).expect("seed header");
            pos = self.seed.frame.len() - src.len();
        }
        Live { stream: None, dec, pos, delivered: vec![], errored: false, fine: 0 }
    }
    fn key(&self, l: &Live) -> Self::Key {
        let d = self.d(l);
        (d.blocks_decoded(), d.bytes_read_from_source(), l.delivered.len(), d.is_finished(), d.get_checksum_from_data(), d.verif_ring_state(), d.get_calculated_checksum(), l.pos, l.fine)
    }
    fn enabled(&self, l: &Live) -> Vec<Op> {
        let mut ops = vec![];
        if l.errored {
            return ops;
        }
        let w = self.window;
        if self.stream_mode {
            // this system is small (no sinks, no budgets): more and finer read sizes than in the other two
            let fine_ok = l.fine < 6;
            for n in [0usize, 1, 7, 100, 333, w - 1, w, w + 1, 2 * w + 3, 1 << 20] {
                if n == 0 || n >= w || fine_ok {
                    ops.push(Op::Read(n));
                }
            }
            ops.push(Op::ReadToEnd);
            return ops;
        }
        if self.slice_mode {
            let left = self.seed.frame.len() - l.pos.min(self.seed.frame.len());
            let started = l.dec.bytes_read_from_source() > 0;
            // the first call must see the whole frame header; afterwards every chunk length
            let chunks: Vec<usize> = if !started { (18.min(left)..=left).collect() } else { (0..=left).collect() };
            let chunks: Vec<usize> = if self.seed.frame.len() > 80 { chunks.into_iter().filter(|c| *c <= 8 || *c == left || *c % 97 == 0 || (left - *c) <= 5).collect() } else { chunks };
            let small = self.seed.plain.len() <= 100;
            for c in chunks {
                for t in [0usize, 1, 3, 64, 1 << 20] {
                    if small || t == 0 || t == 1 << 20 || l.fine < FINE_MAX {
                        ops.push(Op::FromTo(c, t));
                    }
                }
            }
            return ops;
        }
        if !l.dec.is_finished() {
            ops.extend([Op::DecAll, Op::DecBlocks(1), Op::DecBlocks(2), Op::DecBytes(0), Op::DecBytes(1), Op::DecBytes(w), Op::DecBytes(1 << 20)]);
        }
        ops.push(Op::Collect);
        let fine_ok = l.fine < FINE_MAX;
        for n in [0usize, 1, 7, w, w + 1, 1 << 20] {
            if n == 0 || n >= w || fine_ok {
                ops.push(Op::Read(n));
            }
        }
        for (per, budget, kind) in [(usize::MAX, usize::MAX, 0u8), (1, usize::MAX, 0), (usize::MAX, 0, 0), (usize::MAX, 5, 0), (3, 1000, 0), (usize::MAX, 0, 1), (100, 250, 1), (usize::MAX, 7, 2)] {
            if budget == 0 || budget >= 250 || fine_ok {
                ops.push(Op::Writer(per, budget, kind));
            }
        }
        ops
    }
    fn step(&self, l: &mut Live, op: &Op) -> Result<(), String> {
        if self.stream_mode {
            let plain_len = self.seed.plain.len();
            match op {
                Op::Read(n) => {
                    let s = l.stream.as_mut().unwrap();
                    let mut b = vec![0u8; *n];
                    let k = s.sd.read(&mut b).map_err(|e| format!("StreamingDecoder::read failed on a valid frame: {e}"))?;
                    l.pos = s.sd.get_ref().pos;
                    if k > *n {
                        return Err(format!("StreamingDecoder::read({n}) reports {k} bytes"));
                    }
                    if k == 0 && *n > 0 && l.delivered.len() < plain_len {
                        return Err(format!("StreamingDecoder::read({n}) returned 0 (end of stream) after {} of {plain_len} content bytes", l.delivered.len()));
                    }
                    self.take(l, &b[..k], "StreamingDecoder::read()")?;
                    if *n > 0 && *n < self.window {
                        l.fine += 1;
                    }
                }
                Op::ReadToEnd => {
                    let s = l.stream.as_mut().unwrap();
                    let mut v = vec![];
                    let k = s.sd.read_to_end(&mut v).map_err(|e| format!("read_to_end on the StreamingDecoder failed on a valid frame: {e}"))?;
                    l.pos = s.sd.get_ref().pos;
                    if k != v.len() {
                        return Err(format!("read_to_end reports {k} bytes, {} arrived", v.len()));
                    }
                    self.take(l, &v, "read_to_end()")?;
                    if l.delivered.len() != plain_len {
                        return Err(format!("read_to_end returned after {} of {plain_len} content bytes", l.delivered.len()));
                    }
                }
                other => return Err(format!("MODEL: {other:?} is not an operation of the streaming system")),
            }
            if self.d(l).bytes_read_from_source() as usize != l.pos {
                return Err(format!("bytes_read_from_source() = {} but {} bytes were taken from the source", self.d(l).bytes_read_from_source(), l.pos));
            }
            return Ok(());
        }
        let wrapped = ring_wrapped(&l.dec);
        let finished_before = l.dec.is_finished();
        match op {
            Op::DecAll => {
                self.decode(l, S::All)?;
                if !l.dec.is_finished() {
                    return Err(format!("decode_blocks(All) returned without finishing the frame although the source held all of it (stopped at position {} of {})", l.pos, self.seed.frame.len()));
                }
            }
            Op::DecBlocks(n) => self.decode(l, S::UptoBlocks(*n))?,
            Op::DecBytes(n) => self.decode(l, S::UptoBytes(*n))?,
            Op::Collect => {
                let can = l.dec.can_collect();
                let v = l.dec.collect().unwrap_or_default();
                if v.len() != can {
                    return Err(format!("collect() returned {} bytes although can_collect() announced {can}", v.len()));
                }
                if !v.is_empty() {
                    DRAIN_MATRIX[if finished_before { 3 } else { 2 }][wrapped].fetch_add(1, Ordering::Relaxed);
                }
                self.take(l, &v, "collect()")?;
            }
            Op::Read(n) => {
                let can = l.dec.can_collect();
                let mut b = vec![0u8; *n];
                let k = l.dec.read(&mut b).map_err(|e| format!("read failed: {e}"))?;
                if k != can.min(*n) {
                    return Err(format!("read({n}) returned {k} bytes, can_collect() announced {can}"));
                }
                if k > 0 {
                    // `read` switches to the full drain once the last block is decoded (frame_finished)
                    DRAIN_MATRIX[if l.dec.blocks_decoded() == self.nblocks { 1 } else { 0 }][wrapped].fetch_add(1, Ordering::Relaxed);
                }
                self.take(l, &b[..k], "read()")?;
            }
            Op::Writer(per, budget, kind) => {
                let can = l.dec.can_collect();
                let mut s = Sink { got: vec![], per_call: *per, budget: *budget, kind: *kind };
                let r = l.dec.collect_to_writer(&mut s);
                if let Ok(k) = &r {
                    if *k != s.got.len() {
                        return Err(format!("collect_to_writer reported {k} bytes, the sink accepted {}", s.got.len()));
                    }
                }
                if s.got.len() > can {
                    return Err(format!("collect_to_writer handed the sink {} bytes, can_collect() announced {can}", s.got.len()));
                }
                if *budget >= can && s.got.len() != can {
                    return Err(format!("collect_to_writer delivered {} of {can} collectable bytes to a sink with room", s.got.len()));
                }
                if !s.got.is_empty() {
                    let path = if *kind != 0 && s.got.len() < can { 7 } else if s.got.len() < can { 6 } else if finished_before { 5 } else { 4 };
                    DRAIN_MATRIX[path][wrapped].fetch_add(1, Ordering::Relaxed);
                }
                let got = std::mem::take(&mut s.got);
                self.take(l, &got, "collect_to_writer()")?;
            }
            Op::FromTo(c, t) => {
                let frame = &self.seed.frame;
                let src = &frame[l.pos..(l.pos + c).min(frame.len())];
                let mut tgt = vec![0u8; *t];
                let (rd, wr) = l.dec.decode_from_to(src, &mut tgt).map_err(|e| format!("decode_from_to failed on a valid frame (chunk of {} bytes at {}): {e:?}", src.len(), l.pos))?;
                if rd > src.len() {
                    return Err(format!("decode_from_to reports {rd} source bytes consumed but was given only {} (position {} of {}, checksum pending: {})", src.len(), l.pos, frame.len(), self.has_checksum && l.dec.get_checksum_from_data().is_none()));
                }
                if wr > *t {
                    return Err(format!("decode_from_to reports {wr} bytes written into a {t}-byte target"));
                }
                l.pos += rd;
                self.take(l, &tgt[..wr], "decode_from_to()")?;
                // progress: offered everything that is left of the frame and a target with room for all of the
                // content, the call has no reason to stop before the end of the frame
                if l.pos - rd + c >= frame.len() && *t >= self.seed.plain.len() + 1 && !(l.dec.is_finished() && l.pos == frame.len()) {
                    return Err(format!("decode_from_to was offered the complete rest of the frame ({} bytes from position {}) and a {t}-byte target, but stopped at position {} of {} (finished: {})", src.len(), l.pos - rd, l.pos, frame.len(), l.dec.is_finished()));
                }
            }
            Op::ReadToEnd => return Err("MODEL: read_to_end belongs to the streaming system".into()),
        }
        let fine = match op {
            Op::Read(n) => *n > 0 && *n < self.window,
            Op::Writer(_, b, _) => *b > 0 && *b < 250,
            Op::FromTo(_, t) => self.seed.plain.len() > 100 && *t > 0 && *t < 1 << 20,
            _ => false,
        };
        if fine {
            l.fine += 1;
        }
        // invariants after every step
        if l.dec.bytes_read_from_source() as usize != l.pos {
            return Err(format!("bytes_read_from_source() = {} but {} bytes were taken from the source", l.dec.bytes_read_from_source(), l.pos));
        }
        Ok(())
    }
    fn on_state(&self, l: &Live) -> Result<StateInfo, String> {
        let dec = self.d(l);
        if dec.is_finished() && dec.can_collect() == 0 && (l.pos > 0) {
            // terminal: everything delivered, exact consumption, checksums
            let c08 = self.c08_view.load(Ordering::Relaxed);
            if l.delivered != self.seed.plain && !c08 {
                return Err(format!("finished and drained, but {} of {} content bytes were delivered", l.delivered.len(), self.seed.plain.len()));
            }
            if l.pos != self.seed.frame.len() {
                return Err(format!("finished after consuming {} of the frame's {} bytes", l.pos, self.seed.frame.len()));
            }
            // (in C06's view delivered == content here; in C08's view it is whatever was really handed out)
            // C06's statement includes "the final checksum values are identical however decoding is driven": in its
            // view every terminal state has delivered exactly the content, so both values are fixed by the frame and
            // any other value is a dependence on the driver program - reported by C06 under its own wording (the
            // same findings, tagged [C08], go to C08's run)
            let handed_out = zmodel::xxh::checksum32(&l.delivered);
            if !c08 {
                if dec.get_calculated_checksum() != Some(handed_out) {
                    return Err(format!("final checksum depends on how the decoder was driven: calculated checksum {:?} after the whole content was delivered in order; every other driver program ends with {handed_out:#x}", dec.get_calculated_checksum()));
                }
                let stored = dec.get_checksum_from_data();
                if (self.has_checksum && stored != Some(handed_out)) || (!self.has_checksum && stored.is_some()) {
                    return Err(format!("final checksum depends on how the decoder was driven: checksum from data {stored:?} at the end of this program; the frame {}", if self.has_checksum { format!("stores {handed_out:#x}") } else { "has none".to_string() }));
                }
            }
            if dec.get_calculated_checksum() != Some(handed_out) {
                return Err(format!("[C08] calculated checksum {:?} after all output was taken; XXH64 of the {} bytes handed out is {handed_out:#x}", dec.get_calculated_checksum(), l.delivered.len()));
            }
            let want = zmodel::xxh::checksum32(&self.seed.plain);
            if self.has_checksum && dec.get_checksum_from_data() != Some(want) {
                return Err(format!("[C08] checksum from data {:?}, the frame stores {want:#x}", dec.get_checksum_from_data()));
            }
            if !self.has_checksum && dec.get_checksum_from_data().is_some() {
                return Err("[C08] a checksum is reported for a frame without one".into());
            }
            self.terminal_checks.fetch_add(1, Ordering::Relaxed);
            return Ok(StateInfo { terminal: true });
        }
        Ok(StateInfo::default())
    }
}

pub fn frames(tier: Tier) -> Vec<Seed> {
    use zmodel::frame::*;
    let mut v = vec![seeds::windowed(true, 6), seeds::windowed(false, 3)];
    let mk = |name: &str, header: Header, blocks: Vec<Block>| {
        let (frame, plain) = realize(&FrameSpec { header, blocks }, None).unwrap();
        assert_eq!(crate::refz::decode(&frame).as_deref(), Ok(&plain[..]));
        Seed { name: name.into(), frame, plain }
    };
    v.push(mk("single rle block", Header::window(2 << 3, true), vec![Block::Rle(7, 3000)]));
    v.push(mk("last block empty", Header::window(1 << 3, true), vec![Block::Raw((0..1500u32).map(|i| (i * 3) as u8).collect()), Block::Rle(9, 900), Block::Raw(vec![])]));
    v.push(mk("content smaller than window", Header::window(8, false), vec![Block::Raw(b"tiny content".to_vec()), Block::Rle(b'z', 40)]));
    if tier == Tier::Thorough {
        // (12 blocks: 22 M states and 350 M transitions per reader, half an hour each - measured once, see DESIGN)
        v.push(seeds::windowed(true, 10));
        let mut data = vec![];
        let mut i = 0u32;
        // (300 KB / windowLog 14 was measured once: 2.5 M states in 75 minutes and still not closed - every replay
        // decodes up to the whole frame; 40 KB / windowLog 12: 3.7 M states, not closed in 25 minutes)
        while data.len() < 16_000 {
            data.extend_from_slice(format!("row {} col {} val {}\n", i % 977, i % 13, i.wrapping_mul(2654435761) % 1000).as_bytes());
            i += 1;
        }
        let f = crate::refz::compress(&data, &crate::refz::CParams { level: 3, window_log: Some(12), checksum: true, ..Default::default() }, None).unwrap();
        v.push(Seed { name: "libzstd level 3, 16 KB, windowLog 12".into(), frame: f, plain: data });
    }
    v
}

pub fn small_frames() -> Vec<Seed> {
    use zmodel::frame::*;
    let mk = |name: &str, header: Header, blocks: Vec<Block>| {
        let (frame, plain) = realize(&FrameSpec { header, blocks }, None).unwrap();
        assert_eq!(crate::refz::decode(&frame).as_deref(), Ok(&plain[..]));
        Seed { name: name.into(), frame, plain }
    };
    vec![
        mk("3 raw/rle blocks + checksum (35 bytes)", Header::window(0, true), vec![Block::Raw(b"hello".to_vec()), Block::Rle(b'x', 50), Block::Raw(b"world!".to_vec())]),
        mk("compressed block, no checksum", Header::window(0, false), vec![Block::Compressed { lits: Lits::Raw(b"abcdefghij".to_vec(), 0), count_form: 1, modes: pre(), seqs: vec![Seq { ll: 4, ml: 6, of: 3 + 2 }, Seq { ll: 0, ml: 5, of: 1 }], pick: 0 }, Block::Raw(vec![])]),
        mk("single segment + checksum, empty content", Header { window_desc: None, fcs: Some((1, 0)), checksum: true, ..Default::default() }, vec![Block::Raw(vec![])]),
        mk("windowed 2 blocks + checksum", Header::window(0, true), realize_blocks()),
    ]
}
fn realize_blocks() -> Vec<zmodel::frame::Block> {
    use zmodel::frame::*;
    vec![Block::Rle(1, 1000), Block::Rle(2, 100), Block::Compressed { lits: Lits::Raw(vec![5; 6], 0), count_form: 1, modes: pre(), seqs: vec![Seq { ll: 3, ml: 40, of: 3 + 1000 }], pick: 0 }]
}

pub struct Totals {
    pub states: u64,
    pub transitions: u64,
    pub terminal: u64,
    pub exhausted: bool,
}

/// the exploration shared by C06 and C08; violations are routed by `route` to the run
pub fn explore(run: &mut Run, tier: Tier, prop: &str) -> Totals {
    let mut tot = Totals { states: 0, transitions: 0, terminal: 0, exhausted: true };
    // C06 and C08 perform the same exploration; each records only its own violations, so that a defect the other
    // one owns does not use up the violation cap and cut this one's exploration short
    fn is_c08(m: &str) -> bool {
        m.contains("[C08]")
    }
    fn is_not_c08(m: &str) -> bool {
        !m.contains("[C08]")
    }
    let caps = Caps { max_wall_s: tier.pick(150.0, 1500.0), max_states: tier.pick(3_000_000, 30_000_000), not_mine: Some(if prop == "C08" { is_not_c08 } else { is_c08 }), ..Caps::default() };
    let mut systems: Vec<DriveSys> = vec![];
    for s in frames(tier) {
        let big = s.frame.len() > 20_000;
        let big = big || (tier == Tier::Quick && s.plain.len() > 3000);
        let deep = s.plain.len() > 8000;
        for trickle in if big { vec![0usize] } else if deep { vec![0usize, 3] } else { tier.pick(vec![0usize, 3], vec![0, 1, 3, 5]) } {
            systems.push(DriveSys::new(s.clone(), trickle, false));
        }
    }
    for s in small_frames() {
        systems.push(DriveSys::new(s, 0, true));
    }
    for s in frames(tier).into_iter().take(2) {
        systems.push(DriveSys::new(s, 0, true));
    }
    // the io::Read front end: every sequence of read sizes (and read_to_end) on a StreamingDecoder
    for s in frames(tier) {
        if s.frame.len() > 20_000 {
            continue;
        }
        for trickle in if s.plain.len() > 8000 { vec![0usize, 3] } else { tier.pick(vec![0usize, 3], vec![0, 1, 3, 5]) } {
            systems.push(DriveSys::new_mode(s.clone(), trickle, false, true));
        }
    }
    for sys in &systems {
        sys.c08_view.store(prop == "C08", Ordering::Relaxed);
        let (st, found) = xplore::bfs(sys, &caps);
        let mode = if sys.stream_mode { format!("StreamingDecoder over a reader handing out {} per call", if sys.trickle == 0 { "everything".to_string() } else { format!("{} byte(s)", sys.trickle) }) } else if sys.slice_mode { "decode_from_to".to_string() } else if sys.trickle == 0 { "reader (slice)".to_string() } else { format!("reader ({} byte(s) per read)", sys.trickle) };
        println!("{prop} [{} | {mode}]: states={} transitions={} depth={} terminal_states={} exhausted={} {:.1}s {:?}", sys.seed.name, st.states, st.transitions, st.max_depth, st.terminal_states, st.exhausted, st.wall_s, st.cap_hit);
        if let Some(n) = &st.nondeterminism {
            run.machinery_error(format!("[{}] {n}", sys.seed.name));
        }
        tot.states += st.states;
        tot.transitions += st.transitions;
        tot.terminal += st.terminal_states;
        tot.exhausted &= st.exhausted;
        // liveness: the frame is valid, so some driver program must finish it; a search that closes (or is cut
        // short only by a cap, not by violations) without ever reaching a finished, drained state means every
        // program gets stuck
        if prop == "C06" && st.terminal_states == 0 && found.is_empty() && st.exhausted {
            run.violation(Violation { identity: format!("{}:no_program_finishes", if sys.stream_mode { "stream" } else if sys.slice_mode { "slice" } else { "reader" }), what: format!("frame [{}] ({mode}): {} states were explored to closure and none of them is a finished, fully drained decoder: no sequence of calls finishes this valid frame", sys.seed.name, st.states), replay: json!({"frame_name": sys.seed.name, "frame": show(&sys.seed.frame), "trickle": sys.trickle, "slice_mode": sys.slice_mode, "stream_mode": sys.stream_mode, "ops": []}) });
        }
        for f in found {
            let r1 = xplore::replay(sys, &f.ops).err();
            let r2 = xplore::replay(sys, &f.ops).err();
            // state-invariant violations reproduce through on_state, not through step
            let state_inv = f.msg.starts_with("state invariant:");
            if !state_inv && (r1.is_none() || r1 != r2) {
                run.machinery_error(format!("violation did not reproduce deterministically: {} / {:?} / {:?}", f.msg, r1, r2));
                continue;
            }
            let last = f.ops.last().map(|o| format!("{:?}", o)).unwrap_or_default();
            let opname = last.split('(').next().unwrap_or("").to_string();
            let is_c08 = f.msg.contains("[C08]");
            if (prop == "C08") != is_c08 {
                // routed to the other property's run (it performs the same exploration)
                continue;
            }
            run.violation(Violation { identity: format!("{}:{opname}:{}", if sys.stream_mode { "stream" } else if sys.slice_mode { "slice" } else { "reader" }, crate::ev::truncate(&f.msg, 48)), what: format!("frame [{}] ({mode}), driver program {:?}: {}", sys.seed.name, f.ops, f.msg), replay: json!({"frame_name": sys.seed.name, "frame": show(&sys.seed.frame), "trickle": sys.trickle, "slice_mode": sys.slice_mode, "stream_mode": sys.stream_mode, "ops": f.ops.iter().map(op_json).collect::<Vec<_>>()}) });
        }
        if st.terminal_states > 0 && run.cov.get("samples").is_none() {
            run.sample(json!({"frame": sys.seed.name, "mode": mode, "states": st.states, "transitions": st.transitions}));
        }
    }
    tot
}

pub fn main(tier: Tier, replay: Option<Value>) -> i32 {
    if let Some(r) = replay {
        return do_replay(tier, &r["replay"], "C06");
    }
    let mut run = Run::new("C06", "model_checking", tier);
    let tot = explore(&mut run, tier, "C06");
    run.set("states", tot.states);
    run.set("transitions", tot.transitions);
    run.set("terminal_states_checked", tot.terminal);
    run.set("traces_validated_against_impl", tot.transitions);
    run.set("exhaustive", tot.exhausted);
    run.set("rule", "state = driver program (sequence of decode / drain / sink calls) replayed on a fresh FrameDecoder; key = (blocks decoded, bytes consumed, bytes delivered, finished, stored checksum seen, ring (cap, head, tail), running hash value, source position); every operation of the menu (7 decode strategies/budgets, collect, reads of 0/1/7/W/W+1/2^20, 8 sink behaviours incl. partial, Ok(0), WouldBlock and failing sinks; or every (chunk length, target length) for decode_from_to) at every reachable state; after every step the delivered bytes must be the next bytes of the known content and the consumed counters must agree with the source; at every terminal state content, consumption and checksums are compared");
    run.sample(json!({"ops": [op_json(&Op::DecBytes(1)), op_json(&Op::Writer(3, 1000, 0)), op_json(&Op::Read(1025)), op_json(&Op::DecAll), op_json(&Op::Collect)]}));
    run.assume("the running hash value is part of the key, so no assumption is made about when hashing happens");
    run.assume("legal programs only: no decode after the frame finished, the first decode_from_to call sees the whole frame header, later calls continue where the reported count ended");
    run.finish()
}

pub fn do_replay(_tier: Tier, r: &Value, prop: &str) -> i32 {
    let name = r["frame_name"].as_str().unwrap_or("");
    let all: Vec<Seed> = frames(Tier::Thorough).into_iter().chain(small_frames()).collect();
    let Some(seed) = all.into_iter().find(|s| s.name == name) else {
        println!("unknown frame {name}");
        return 2;
    };
    let sys = DriveSys::new_mode(seed, r["trickle"].as_u64().unwrap_or(0) as usize, r["slice_mode"].as_bool().unwrap_or(false), r["stream_mode"].as_bool().unwrap_or(false));
    sys.c08_view.store(prop == "C08", Ordering::Relaxed);
    let ops: Vec<Op> = r["ops"].as_array().unwrap().iter().map(op_from).collect();
    let mut res = vec![];
    for _ in 0..2 {
        let out = match xplore::replay(&sys, &ops) {
            Err((i, m)) => Some(format!("step {i}: {m}")),
            Ok(l) => sys.on_state(&l).err(),
        };
        res.push(out);
    }
    println!("replay run 1: {:?}\nreplay run 2: {:?}", res[0], res[1]);
    if res[0] != res[1] {
        return 2;
    }
    if res[0].is_some() {
        println!("VIOLATION property={prop} replay=(given file)");
        1
    } else {
        0
    }
}
