//! C10 — exact frame boundaries: consumption, multi-frame decoding, truncation detection.
use crate::c12::{merge, Acc};
use crate::ev::{hex, show, Run, Tier};
use crate::fe::{self, End, Trickle};
use crate::meter::{self, guarded};
use crate::seeds::{self, Seed};
use ruzstd::decoding::errors::FrameDecoderError;
use ruzstd::decoding::{BlockDecodingStrategy as S, FrameDecoder, StreamingDecoder};
use serde_json::{json, Value};
use std::io::Read;

fn frames(tier: Tier) -> Vec<Seed> {
    let mut v = seeds::small(2048, tier.pick(300, 800));
    v.push(seeds::windowed(true, 3));
    v.push(seeds::windowed(false, 2));
    // compressor output and libzstd frames
    for (i, data) in [b"".to_vec(), b"a".to_vec(), b"hello hello hello hello hello hello".to_vec(), (0..1500u32).map(|i| (i % 13) as u8).collect::<Vec<u8>>()].into_iter().enumerate() {
        for level in [ruzstd::encoding::CompressionLevel::Uncompressed, ruzstd::encoding::CompressionLevel::Fastest] {
            v.push(Seed { name: format!("compressor output {i} {:?}", level), frame: ruzstd::encoding::compress_to_vec(data.as_slice(), level), plain: data.clone() });
        }
        for (ck, cs) in [(false, false), (true, true)] {
            let f = crate::refz::compress(&data, &crate::refz::CParams { level: 3, checksum: ck, content_size: cs, ..Default::default() }, None).unwrap();
            v.push(Seed { name: format!("libzstd {i} ck={ck}"), frame: f, plain: data.clone() });
        }
    }
    v
}

/// (a) frame ++ trailer through a counting reader: consumes exactly the frame
fn trailer_case(a: &mut Acc, s: &Seed, trailer: &[u8], front: usize) {
    a.evals += 1;
    let mut input = s.frame.clone();
    input.extend_from_slice(trailer);
    let rp = json!({"case": "trailer", "frame": show(&s.frame), "trailer": hex(trailer), "front_end": front});
    let r = guarded(|| -> Result<(usize, u64, Vec<u8>, bool), String> {
        let mut dec = FrameDecoder::new();
        let mut out = vec![];
        let mut t = Trickle { data: &input, k: [usize::MAX, 1, 5][front % 3], pulled: 0 };
        match front / 3 {
            0 => {
                let mut sd = StreamingDecoder::new_with_decoder(&mut t, &mut dec).map_err(|e| format!("{e:?}"))?;
                sd.read_to_end(&mut out).map_err(|e| format!("{e:?}"))?;
            }
            _ => {
                dec.reset(&mut t).map_err(|e| format!("{e:?}"))?;
                while !dec.is_finished() {
                    dec.decode_blocks(&mut t, S::UptoBlocks(1)).map_err(|e| format!("{e:?}"))?;
                    if let Some(v) = dec.collect() {
                        out.extend(v);
                    }
                }
                if let Some(v) = dec.collect() {
                    out.extend(v);
                }
            }
        }
        Ok((t.pulled, dec.bytes_read_from_source(), out, dec.is_finished()))
    });
    match r {
        Err(p) => a.bad("trailer:panic".into(), format!("[{}] + trailer {}: panic: {p}", s.name, hex(trailer)), rp),
        Ok(Err(e)) => a.bad("trailer:error".into(), format!("[{}] + trailer {}: decoding the frame failed: {e}", s.name, hex(trailer)), rp),
        Ok(Ok((pulled, reported, out, fin))) => {
            a.nontrivial += 1;
            if pulled != s.frame.len() || reported != s.frame.len() as u64 || out != s.plain || !fin {
                a.bad(format!("trailer:consumption:{}", if front / 3 == 0 { "streaming" } else { "decode_blocks" }), format!("[{}] ({} bytes) followed by {}: {pulled} bytes taken from the source, bytes_read_from_source() = {reported}, {} of {} content bytes, finished = {fin}", s.name, s.frame.len(), hex(trailer), out.len(), s.plain.len()), rp);
            }
        }
    }
}

/// (b) every strict prefix: an error, never finished, delivered bytes a prefix of the content; on a new decoder
/// and (reused = true) on a decoder that completed a checksummed frame before
fn truncation_case(a: &mut Acc, s: &Seed, k: usize, front: usize, reused: Option<&Seed>) {
    a.evals += 1;
    a.nontrivial += 1;
    let data = &s.frame[..k];
    let o = match reused {
        None => fe::run(front, data, s.plain.len() + 1024),
        Some(prev) => {
            let mut dec = FrameDecoder::new();
            let p = fe::run_on(&mut dec, 2, &prev.frame, prev.plain.len() + 64);
            if !p.is_ok_with(&prev.plain) {
                a.bad("MODEL:c10_prologue".into(), format!("prologue does not decode: {}", p.brief()), json!({}));
                return;
            }
            fe::run_on(&mut dec, front, data, s.plain.len() + 1024)
        }
    };
    let front_name = format!("{}{}", fe::FRONT_ENDS[front], if reused.is_some() { " on a reused decoder" } else { "" });
    let rp = json!({"case": "truncation", "frame": show(&s.frame), "cut": k, "front_end": front_name});
    match &o.end {
        End::Panic(p) => a.bad("truncation:panic".into(), format!("[{}] cut at {k}/{}: {} panicked: {p}", s.name, s.frame.len(), front_name), rp),
        End::Ok => a.bad(format!("truncation:accepted:{}", front_name), format!("[{}] cut at {k} of {} bytes: {} ended successfully ({} bytes delivered, content has {}): silent truncation", s.name, s.frame.len(), front_name, o.delivered.len(), s.plain.len()), rp),
        End::Err(_) => {
            if o.finished && front != 5 && k >= 5 {
                // `finished` before any frame was initialised (header cut) is the decoder's idle state
                let header_done = zmodel::walker::parse_header(data).is_ok();
                if header_done {
                    a.bad(format!("truncation:finished:{}", front_name), format!("[{}] cut at {k} of {} bytes: {} failed but is_finished() is true", s.name, s.frame.len(), front_name), rp.clone());
                }
            }
            if !s.plain.starts_with(&o.delivered) {
                a.bad(format!("truncation:not_prefix:{}", front_name), format!("[{}] cut at {k}: {} delivered {} bytes that are not a prefix of the content", s.name, front_name, o.delivered.len()), rp);
            }
        }
    }
}

fn skippable(magic_low: u8, len: usize) -> Vec<u8> {
    let mut v = (0x184D2A50u32 + magic_low as u32).to_le_bytes().to_vec();
    v.extend((len as u32).to_le_bytes());
    v.extend((0..len).map(|i| 0xE0 + i as u8));
    v
}

/// (c) multi-frame calls with every target size
fn multi_case(a: &mut Acc, items: &[(Vec<u8>, Vec<u8>)], garbage: &[u8]) {
    let mut input = vec![];
    let mut want = vec![];
    for (f, p) in items {
        input.extend_from_slice(f);
        want.extend_from_slice(p);
    }
    input.extend_from_slice(garbage);
    let total = want.len();
    let rp = |t: usize| json!({"case": "multi", "input": show(&input), "target": t});
    for t in 0..=total + 1 {
        a.evals += 1;
        // decode_all into a slice framed by canaries
        let mut buf = vec![0xAAu8; t + 16];
        let r = guarded(|| FrameDecoder::new().decode_all(&input, &mut buf[8..8 + t]));
        let canaries = buf[..8].iter().chain(buf[8 + t..].iter()).all(|b| *b == 0xAA);
        if !canaries {
            a.bad("multi:out_of_bounds".into(), format!("decode_all wrote outside its {t}-byte target"), rp(t));
            return;
        }
        match r {
            Err(p) => {
                a.bad("multi:panic".into(), format!("decode_all panicked with a {t}-byte target: {p}"), rp(t));
                return;
            }
            Ok(Ok(n)) => {
                if !garbage.is_empty() {
                    a.bad("multi:garbage_accepted".into(), format!("decode_all returned Ok({n}) although {} trailing bytes ({}) follow the last frame", garbage.len(), hex(garbage)), rp(t));
                    return;
                }
                if t < total || n != total || buf[8..8 + n] != want[..] {
                    a.bad("multi:wrong_total".into(), format!("decode_all into {t} bytes returned Ok({n}); the frames hold {total} bytes"), rp(t));
                    return;
                }
                a.nontrivial += 1;
            }
            Ok(Err(e)) => {
                if t >= total && garbage.is_empty() {
                    a.bad("multi:refused".into(), format!("decode_all into {t} bytes (content {total}) failed: {e:?}"), rp(t));
                    return;
                }
                if t < total && garbage.is_empty() && !matches!(e, FrameDecoderError::TargetTooSmall) {
                    a.bad("multi:wrong_error".into(), format!("decode_all into {t} bytes (content {total}) failed with {e:?} instead of TargetTooSmall"), rp(t));
                    return;
                }
            }
        }
        // decode_all_to_vec: extra capacity t behind a 3-byte prefix
        let mut v = Vec::with_capacity(3 + t);
        v.extend_from_slice(b"pre");
        let cap = v.capacity();
        let r = guarded(|| FrameDecoder::new().decode_all_to_vec(&input, &mut v));
        match r {
            Err(p) => {
                a.bad("multi:vec_panic".into(), format!("decode_all_to_vec panicked with {t} bytes of spare capacity: {p}"), rp(t));
                return;
            }
            Ok(Ok(())) => {
                if !garbage.is_empty() || cap - 3 < total || v.len() != 3 + total || &v[..3] != b"pre" || v[3..] != want[..] {
                    a.bad("multi:vec_wrong".into(), format!("decode_all_to_vec with {} spare bytes returned Ok: vector has {} bytes, expected prefix + {total}", cap - 3, v.len()), rp(t));
                    return;
                }
            }
            Ok(Err(_)) => {
                if v.len() != 3 || &v[..] != b"pre" {
                    a.bad("multi:vec_changed_on_failure".into(), format!("decode_all_to_vec failed but left the vector with {} bytes (was 3)", v.len()), rp(t));
                    return;
                }
                if cap - 3 >= total && garbage.is_empty() {
                    a.bad("multi:vec_refused".into(), format!("decode_all_to_vec with {} spare bytes (content {total}) failed", cap - 3), rp(t));
                    return;
                }
            }
        }
        if v.capacity() != cap {
            a.bad("multi:vec_reallocated".into(), "decode_all_to_vec changed the vector's capacity".into(), rp(t));
            return;
        }
    }
}

pub fn main(tier: Tier, replay: Option<Value>) -> i32 {
    if let Some(r) = replay {
        return do_replay(&r["replay"]);
    }
    let mut run = Run::new("C10", "fault_enumeration", tier);
    let th = meter::threads();
    let fs = frames(tier);
    run.set("frames", fs.len() as u64);
    // (a)
    let mut trailers: Vec<Vec<u8>> = vec![vec![]];
    for b in 0..=255u8 {
        trailers.push(vec![b]);
    }
    trailers.push(vec![0x28, 0xB5, 0x2F]);
    trailers.push(vec![0x28, 0xB5, 0x2F, 0xFD]);
    trailers.push(fs[0].frame.clone());
    trailers.push(skippable(3, 2));
    let n = fs.len() * trailers.len();
    let accs = meter::par_fold(n, th, Acc::default, |a, i| {
        let s = &fs[i / trailers.len()];
        let t = &trailers[i % trailers.len()];
        // every trailer through two front ends x the plain reader; the fragmenting readers on a few trailers
        let fronts: &[usize] = if t.len() != 1 || t[0] % 64 == 0 { &[0, 1, 2, 3, 4, 5] } else { &[0, 3] };
        for &f in fronts {
            trailer_case(a, s, t, f);
        }
    });
    merge(&mut run, "C10", "frame_plus_trailer_exact_consumption", accs, false);
    // (b)
    let mut cuts: Vec<(usize, usize)> = vec![];
    for (i, s) in fs.iter().enumerate() {
        for k in 1..s.frame.len() {
            cuts.push((i, k));
        }
    }
    let prior = seeds::windowed(true, 2);
    let accs = meter::par_fold(cuts.len(), th, Acc::default, |a, i| {
        let (si, k) = cuts[i];
        for f in 0..8 {
            truncation_case(a, &fs[si], k, f, None);
        }
        // on a decoder that completed a checksummed frame before (reader front ends; cuts near the end and a
        // spread of the others)
        if k + 6 >= fs[si].frame.len() || k % 5 == 0 {
            for f in 0..5 {
                truncation_case(a, &fs[si], k, f, Some(&prior));
            }
        }
    });
    merge(&mut run, "C10", "every_truncation_point_every_front_end", accs, true);
    // (c)
    let small: Vec<(Vec<u8>, Vec<u8>)> = {
        use zmodel::frame::*;
        let mk = |h: Header, b: Vec<Block>| realize(&FrameSpec { header: h, blocks: b }, None).unwrap();
        vec![mk(Header::window(0, false), vec![Block::Raw(b"abc".to_vec()), Block::Rle(b'r', 9)]), mk(Header::window(0, true), vec![Block::Compressed { lits: Lits::Raw(b"xyzw".to_vec(), 0), count_form: 1, modes: pre(), seqs: vec![Seq { ll: 4, ml: 5, of: 3 + 2 }], pick: 0 }]), mk(Header { window_desc: None, fcs: Some((1, 0)), checksum: true, ..Default::default() }, vec![Block::Raw(vec![])])]
    };
    let mut alphabet: Vec<(Vec<u8>, Vec<u8>)> = small.clone();
    for m in 0..16u8 {
        alphabet.push((skippable(m, 0), vec![]));
        alphabet.push((skippable(m, 5), vec![]));
    }
    let mut seqs: Vec<Vec<usize>> = vec![vec![]];
    for i in 0..alphabet.len() {
        seqs.push(vec![i]);
        for j in 0..alphabet.len() {
            // pairs: all; triples: frames and two skippable magics only
            seqs.push(vec![i, j]);
            let lim = |x: usize| x < 3 || x == 3 || x == 3 + 31;
            if lim(i) && lim(j) {
                for k in 0..alphabet.len() {
                    if lim(k) {
                        seqs.push(vec![i, j, k]);
                    }
                }
            }
        }
    }
    let garbage: Vec<Vec<u8>> = vec![vec![], vec![0x00], vec![0x28, 0xB5, 0x2F, 0xFD], vec![0x50, 0x2A, 0x4D, 0x18, 0x05, 0, 0, 0, 1, 2], vec![0x50, 0x2A, 0x4D]];
    let accs = meter::par_fold(seqs.len(), th, Acc::default, |a, i| {
        let items: Vec<(Vec<u8>, Vec<u8>)> = seqs[i].iter().map(|&k| alphabet[k].clone()).collect();
        for g in &garbage {
            if !g.is_empty() && i % 7 != 0 && seqs[i].len() > 1 {
                continue;
            }
            multi_case(a, &items, g);
        }
    });
    merge(&mut run, "C10", "multi_frame_sequences_every_target_size", accs, false);
    run.set("multi_frame_sequences", seqs.len() as u64);
    run.set("exhaustive", false);
    run.set("rule", "(a) every frame followed by each of 261 trailers (empty, every single byte value, magic prefixes, a second frame, a skippable frame) through counting readers: bytes taken == bytes_read_from_source == frame length; (b) every strict prefix of every frame through 8 front ends on a new decoder, and the cuts within 6 bytes of the end plus every fifth other cut through 5 reader front ends on a decoder that completed a checksummed frame before: an error, never a finished state, delivered bytes a prefix of the content; (c) every sequence of up to 3 items over {3 small frames, skippable frames of length 0 and 5 for all 16 magic values} with and without trailing garbage / truncated skippable frames through decode_all and decode_all_to_vec with EVERY target size 0..=total+1: exact total or TargetTooSmall, canaries around the target intact, vector unchanged on failure");
    run.sample(json!({"case": "truncation", "frame": show(&fs[2].frame), "cuts": format!("1..{}", fs[2].frame.len())}));
    run.sample(json!({"case": "multi", "items": ["frame A", "skippable magic 0x184D2A5F len 5", "checksum frame B"], "targets": "0..=total+1"}));
    run.finish()
}

fn do_replay(r: &Value) -> i32 {
    println!("C10 replays are case descriptions ({}); rerun ./check C10 to reproduce", r["case"]);
    2
}
