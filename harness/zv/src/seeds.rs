//! Seed frames: one valid frame per (abstract source state, block archetype) class, validated by libzstd.
use crate::gen::{self, Arch, LitKind, ModeKind, Pattern};
use crate::refz;
use zmodel::frame::*;

#[derive(Clone)]
pub struct Seed {
    pub name: String,
    pub frame: Vec<u8>,
    pub plain: Vec<u8>,
}

fn prefixes() -> Vec<Vec<Arch>> {
    let c = |lits, modes, pattern| Arch::Comp { lits, count_form: 1, modes, pattern };
    vec![
        vec![],
        vec![Arch::Raw(5)],
        vec![c(LitKind::Huff(1, 0, false), [ModeKind::Fse; 3], Pattern::SameCodes)],
        vec![c(LitKind::Huff(4, 1, true), [ModeKind::Rle; 3], Pattern::SameCodes)],
        vec![Arch::RleBlock(1000), c(LitKind::Raw(1), [ModeKind::Pre, ModeKind::FseMaxLog, ModeKind::Pre], Pattern::Repeats)],
    ]
}

/// all seeds (several thousand, a few very large); callers filter by size
pub fn all() -> Vec<Seed> {
    let alpha = gen::alphabet_pairwise();
    let mut out: Vec<Seed> = vec![];
    let mut seen = std::collections::HashSet::new();
    for (pi, pre) in prefixes().iter().enumerate() {
        let Some((blocks, st)) = gen::realise_path(pre, None) else { continue };
        for (ai, &a) in alpha.iter().enumerate() {
            let Some(b) = gen::make_block(a, &st) else { continue };
            let mut bl = blocks.clone();
            bl.push(b);
            // vary the header: checksum on/off, single segment for small contents
            let plain_len: usize = execute(&bl, None).map(|p| p.len()).unwrap_or(usize::MAX);
            if plain_len == usize::MAX {
                continue;
            }
            let header = match (pi + ai) % 4 {
                0 => gen::default_header(true),
                1 => gen::default_header(false),
                2 => Header { window_desc: None, fcs: Some((if plain_len < 256 { 1 } else if plain_len < 65792 { 2 } else { 4 }, plain_len as u64)), checksum: true, ..Default::default() },
                _ => Header { window_desc: Some(13 << 3), fcs: Some((8, plain_len as u64)), ..Default::default() },
            };
            let spec = FrameSpec { header, blocks: bl };
            let Some((frame, plain)) = realize(&spec, None) else { continue };
            if !seen.insert(frame.clone()) {
                continue;
            }
            match refz::decode(&frame) {
                Ok(p) if p == plain => out.push(Seed { name: format!("p{pi}/{:?}", a), frame, plain }),
                _ => {}
            }
        }
    }
    out
}

/// seeds whose frame is at most `max_frame` bytes, at most `n` of them, spread over the archetypes
pub fn small(max_frame: usize, n: usize) -> Vec<Seed> {
    let v: Vec<Seed> = all().into_iter().filter(|s| s.frame.len() <= max_frame).collect();
    if v.len() <= n {
        return v;
    }
    let step = v.len() as f64 / n as f64;
    (0..n).map(|i| v[(i as f64 * step) as usize].clone()).collect()
}

/// a multi-block frame with a 1 KiB window whose matches reach back a full window (C06 / C10 work-horse)
pub fn windowed(checksum: bool, nblocks: u32) -> Seed {
    let mut blocks = vec![];
    let mut produced = 0u32;
    for b in 0..nblocks {
        let lits: Vec<u8> = (0..300u32).map(|i| ((i * 7 + b * 13) % 251) as u8).collect();
        let seqs = if b == 0 {
            vec![Seq { ll: 200, ml: 100, of: 3 + 150 }, Seq { ll: 50, ml: 300, of: 3 + 7 }]
        } else {
            // the first sequence of the block has no literals and reaches back exactly one window (or to the first
            // byte of the frame): it is only decodable if a full window was retained across the block boundary
            vec![Seq { ll: 0, ml: 60, of: 3 + 1024.min(produced) }, Seq { ll: 100, ml: 140, of: 3 + 1000.min(produced + 100) }, Seq { ll: 0, ml: 150, of: 1 }, Seq { ll: 150, ml: 250, of: 3 + 1024.min(produced + 600) }]
        };
        produced += 300 + seqs.iter().map(|s| s.ml).sum::<u32>();
        blocks.push(Block::Compressed { lits: Lits::Raw(lits, 1), count_form: 1, modes: pre(), seqs, pick: 0 });
    }
    let spec = FrameSpec { header: Header::window(0, checksum), blocks };
    let (frame, plain) = realize(&spec, None).expect("windowed seed");
    assert_eq!(refz::decode(&frame).as_deref(), Ok(&plain[..]), "libzstd must accept the windowed seed");
    Seed { name: format!("windowed{nblocks}{}", if checksum { "+ck" } else { "" }), frame, plain }
}
