//! C04 under Miri: replays jobs (operation histories on the real RingBuffer, dumped by `zv C04 --dump-jobs`)
//! in the interpreter, which reports reads of uninitialised bytes, out-of-bounds accesses and provenance errors
//! that never become visible in the queue's contents. Contents are still compared with a VecDeque.
//! usage: c04miri <jobs-file> <shard> <nshards>
use ruzstd::decoding::verif::{DecodeBuffer, RingBuffer};
use std::collections::VecDeque;
use std::io::Read;

struct ScriptReader<'a> {
    data: &'a [u8],
    then: u8,
}
impl Read for ScriptReader<'_> {
    fn read(&mut self, buf: &mut [u8]) -> std::io::Result<usize> {
        if self.data.is_empty() {
            return match self.then {
                2 => Err(std::io::Error::new(std::io::ErrorKind::Other, "scripted failure")),
                _ => Ok(0),
            };
        }
        let n = buf.len().min(self.data.len()).min(3);
        buf[..n].copy_from_slice(&self.data[..n]);
        self.data = &self.data[n..];
        Ok(n)
    }
}

fn main() {
    let args: Vec<String> = std::env::args().collect();
    let text = std::fs::read_to_string(&args[1]).expect("jobs file");
    let shard: usize = args[2].parse().unwrap();
    let n: usize = args[3].parse().unwrap();
    let mut jobs = 0u64;
    let mut steps = 0u64;
    for (i, line) in text.lines().enumerate() {
        if i % n != shard {
            continue;
        }
        jobs += 1;
        if let Some(rest) = line.strip_prefix('B') {
            steps += buffer_job(i, rest);
            continue;
        }
        let mut r = RingBuffer::new();
        let mut model: VecDeque<u8> = VecDeque::new();
        let mut ctr = 0u32;
        for op in line.split(';').filter(|s| !s.is_empty()) {
            steps += 1;
            let f: Vec<usize> = op[1..].split(',').filter(|s| !s.is_empty()).map(|s| s.parse().unwrap()).collect();
            let mut fresh = |k: usize| -> Vec<u8> {
                (0..k)
                    .map(|_| {
                        ctr += 1;
                        (ctr % 251) as u8 + 1
                    })
                    .collect()
            };
            match op.as_bytes()[0] {
                b'e' => {
                    let d = fresh(f[0]);
                    r.extend(&d);
                    model.extend(d.iter());
                }
                b'f' => {
                    let d = fresh(1)[0];
                    r.extend_and_fill(d, f[0]);
                    model.extend(std::iter::repeat(d).take(f[0]));
                }
                b'r' => {
                    let d = fresh(f[0]);
                    let ok = r.extend_from_reader(ScriptReader { data: &d[..f[1]], then: f[2] as u8 }, f[0]).is_ok();
                    assert_eq!(ok, f[1] == f[0], "job {i}: reader result");
                    if ok {
                        model.extend(d.iter());
                    }
                }
                b'w' => {
                    r.reserve(f[1]);
                    // SAFETY: as in DecodeBuffer::repeat; the job generator only emits start + len <= len()
                    unsafe { r.extend_from_within_unchecked(f[0], f[1]) };
                    for k in 0..f[1] {
                        let b = model[f[0] + k];
                        model.push_back(b);
                    }
                }
                b'b' => {
                    r.reserve(f[1]);
                    // SAFETY: same contract as extend_from_within_unchecked
                    unsafe { r.extend_from_within_unchecked_branchless(f[0], f[1]) };
                    for k in 0..f[1] {
                        let b = model[f[0] + k];
                        model.push_back(b);
                    }
                }
                b'd' => {
                    r.drop_first_n(f[0]);
                    model.drain(..f[0]);
                }
                b'v' => r.reserve(f[0]),
                b'c' => {
                    r.clear();
                    model.clear();
                }
                b'p' => {
                    let d = fresh(1);
                    r.push_back(d[0]);
                    model.push_back(d[0]);
                }
                x => panic!("unknown op {x}"),
            }
            let (s1, s2) = r.as_slices();
            let got: Vec<u8> = s1.iter().chain(s2.iter()).cloned().collect();
            let want: Vec<u8> = model.iter().cloned().collect();
            assert_eq!(got, want, "job {i} ({line}): contents differ after {op}");
        }
    }
    println!("MIRI-OK jobs={jobs} steps={steps}");
}

struct Sink {
    got: Vec<u8>,
    per_call: usize,
    budget: usize,
    kind: u8,
}
impl std::io::Write for Sink {
    fn write(&mut self, b: &[u8]) -> std::io::Result<usize> {
        if self.budget == 0 {
            return if self.kind == 1 { Err(std::io::ErrorKind::WouldBlock.into()) } else { Ok(0) };
        }
        let n = b.len().min(self.per_call).min(self.budget);
        self.budget -= n;
        self.got.extend_from_slice(&b[..n]);
        Ok(n)
    }
    fn flush(&mut self) -> std::io::Result<()> {
        Ok(())
    }
}

/// "window,dictlen|op;op;…" on the real DecodeBuffer against a Vec model (history = dictionary ++ produced)
fn buffer_job(i: usize, spec: &str) -> u64 {
    let (head, ops) = spec.split_once('|').unwrap();
    let hp: Vec<usize> = head.split(',').map(|s| s.parse().unwrap()).collect();
    let (window, dict) = (hp[0], (0..hp[1]).map(|k| 201 + k as u8).collect::<Vec<u8>>());
    let mut buf = DecodeBuffer::new(window);
    buf.dict_content.extend_from_slice(&dict);
    let mut produced: Vec<u8> = vec![];
    let mut drained = 0usize;
    let mut ctr = 0u32;
    let mut steps = 0;
    for op in ops.split(';').filter(|s| !s.is_empty()) {
        steps += 1;
        let f: Vec<usize> = op[1..].split(',').filter(|s| !s.is_empty()).map(|s| s.parse().unwrap()).collect();
        let mut fresh = |k: usize| -> Vec<u8> {
            (0..k)
                .map(|_| {
                    ctr += 1;
                    (ctr % 251) as u8 + 1
                })
                .collect()
        };
        let held = produced.len() - drained;
        let mut take = |got: &[u8], produced: &Vec<u8>, drained: &mut usize| {
            assert_eq!(got, &produced[*drained..*drained + got.len()], "job {i}: drained bytes differ after {op}");
            *drained += got.len();
        };
        match op.as_bytes()[0] {
            b'p' => {
                let d = fresh(f[0]);
                buf.push(&d);
                produced.extend(d);
            }
            b'l' => {
                let d = fresh(1)[0];
                buf.extend_and_fill(d, f[0]);
                produced.extend(std::iter::repeat(d).take(f[0]));
            }
            b'q' => {
                let d = fresh(f[0]);
                buf.extend_from_reader(d.as_slice(), f[0]).unwrap();
                produced.extend(d);
            }
            b't' => {
                let dict_reach = if drained == 0 && produced.len() <= window { dict.len() } else { 0 };
                let r = buf.repeat(f[0], f[1]);
                if f[0] <= held + dict_reach {
                    r.expect("legal repeat");
                    for _ in 0..f[1] {
                        let pos = produced.len() as isize - f[0] as isize;
                        let b = if pos >= 0 { produced[pos as usize] } else { dict[(dict.len() as isize + pos) as usize] };
                        produced.push(b);
                    }
                } else {
                    assert!(r.is_err(), "job {i}: repeat beyond reach accepted");
                }
            }
            b'a' => {
                let g = buf.drain_to_window_size().unwrap_or_default();
                take(&g, &produced, &mut drained);
            }
            b'x' => {
                let g = buf.drain();
                take(&g, &produced, &mut drained);
            }
            b'R' => {
                let mut t = vec![0u8; f[0]];
                let k = std::io::Read::read(&mut buf, &mut t).unwrap();
                take(&t[..k], &produced, &mut drained);
            }
            b'A' => {
                let mut t = vec![0u8; f[0]];
                let k = buf.read_all(&mut t).unwrap();
                take(&t[..k], &produced, &mut drained);
            }
            b'W' | b'V' => {
                let mut s = Sink { got: vec![], per_call: f[0], budget: f[1], kind: f[2] as u8 };
                let _ = if op.as_bytes()[0] == b'V' { buf.drain_to_writer(&mut s) } else { buf.drain_to_window_size_writer(&mut s) };
                let got = std::mem::take(&mut s.got);
                take(&got, &produced, &mut drained);
            }
            b'z' => {
                buf.reset(window);
                buf.dict_content.extend_from_slice(&dict);
                produced.clear();
                drained = 0;
            }
            x => panic!("unknown buffer op {x}"),
        }
        assert_eq!(buf.len(), produced.len() - drained, "job {i}: held bytes after {op}");
        assert_eq!(buf.verif_contents(), &produced[drained..], "job {i}: contents after {op}");
    }
    steps
}
