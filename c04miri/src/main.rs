//! C04 under Miri: replays jobs (operation histories on the real RingBuffer, dumped by `zv C04 --dump-jobs`)
//! in the interpreter, which reports reads of uninitialised bytes, out-of-bounds accesses and provenance errors
//! that never become visible in the queue's contents. Contents are still compared with a VecDeque.
//! usage: c04miri <jobs-file> <shard> <nshards>
use ruzstd::decoding::verif::RingBuffer;
use std::collections::VecDeque;
use std::io::Read;

struct ScriptReader<'a> {
    data: &'a [u8],
    then: u8,
}
impl Read for ScriptReader<'_> {
    fn read(&mut self, buf: &mut [u8]) -> std::io::Result<usize> {
        if self.data.is_empty() {
            return match self.then {
                2 => Err(std::io::Error::new(std::io::ErrorKind::Other, "scripted failure")),
                _ => Ok(0),
            };
        }
        let n = buf.len().min(self.data.len()).min(3);
        buf[..n].copy_from_slice(&self.data[..n]);
        self.data = &self.data[n..];
        Ok(n)
    }
}

fn main() {
    let args: Vec<String> = std::env::args().collect();
    let text = std::fs::read_to_string(&args[1]).expect("jobs file");
    let shard: usize = args[2].parse().unwrap();
    let n: usize = args[3].parse().unwrap();
    let mut jobs = 0u64;
    let mut steps = 0u64;
    for (i, line) in text.lines().enumerate() {
        if i % n != shard {
            continue;
        }
        jobs += 1;
        let mut r = RingBuffer::new();
        let mut model: VecDeque<u8> = VecDeque::new();
        let mut ctr = 0u32;
        for op in line.split(';').filter(|s| !s.is_empty()) {
            steps += 1;
            let f: Vec<usize> = op[1..].split(',').filter(|s| !s.is_empty()).map(|s| s.parse().unwrap()).collect();
            let mut fresh = |k: usize| -> Vec<u8> {
                (0..k)
                    .map(|_| {
                        ctr += 1;
                        (ctr % 251) as u8 + 1
                    })
                    .collect()
            };
            match op.as_bytes()[0] {
                b'e' => {
                    let d = fresh(f[0]);
                    r.extend(&d);
                    model.extend(d.iter());
                }
                b'f' => {
                    let d = fresh(1)[0];
                    r.extend_and_fill(d, f[0]);
                    model.extend(std::iter::repeat(d).take(f[0]));
                }
                b'r' => {
                    let d = fresh(f[0]);
                    let ok = r.extend_from_reader(ScriptReader { data: &d[..f[1]], then: f[2] as u8 }, f[0]).is_ok();
                    assert_eq!(ok, f[1] == f[0], "job {i}: reader result");
                    if ok {
                        model.extend(d.iter());
                    }
                }
                b'w' => {
                    r.reserve(f[1]);
                    // SAFETY: as in DecodeBuffer::repeat; the job generator only emits start + len <= len()
                    unsafe { r.extend_from_within_unchecked(f[0], f[1]) };
                    for k in 0..f[1] {
                        let b = model[f[0] + k];
                        model.push_back(b);
                    }
                }
                b'd' => {
                    r.drop_first_n(f[0]);
                    model.drain(..f[0]);
                }
                b'v' => r.reserve(f[0]),
                b'c' => {
                    r.clear();
                    model.clear();
                }
                x => panic!("unknown op {x}"),
            }
            let (s1, s2) = r.as_slices();
            let got: Vec<u8> = s1.iter().chain(s2.iter()).cloned().collect();
            let want: Vec<u8> = model.iter().cloned().collect();
            assert_eq!(got, want, "job {i} ({line}): contents differ after {op}");
        }
    }
    println!("MIRI-OK jobs={jobs} steps={steps}");
}
